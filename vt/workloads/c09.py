"""C09 — sparse containers behave like the dense NumPy arrays they represent.

Differential monitor: every operation is executed on the real sparse objects and on
NumPy twins built from the same dense images; dense images of results, operands after
the call, the stored-entries invariant and rejections are compared.
"""
import itertools, math, operator as op, sys
import numpy as np
import thermosteam  # noqa
from vt.core import case_hash

sp = sys.modules['thermosteam.base.sparse']
SV, SLV, SA = sp.SparseVector, sp.SparseLogicalVector, sp.SparseArray
SPARSE = (SV, SLV, SA)

PID = 'C09'
RULE = ('cases: (1) single operations op(L,R) with L a sparse vector/logical vector/array of shape <=3x6 and R any operand kind '
        'of the decided domain D (DESIGN C09), values from {0, a, -a, 1/3, 1e-100, 1e100, ...}; (2) get/set by int, slice, int list/array, '
        'boolean mask, [i,j], [:,j], [rows,cols]; (3) reductions x axis x keepdims; (4) construction/copy/conversion; (5) rejection domain R; '
        '(6) histories of 5-30 operations on a pool of 4 objects with aliasing and row views, NumPy twins updated in lock-step; '
        '(7) bounded exhaustive enumeration over the alphabet {0,1,-1,0.5} for vectors of size<=3 and arrays<=2x2. '
        'non-trivial = result (or target after the call) has at least one non-zero and one zero entry, or a rejection was demanded; '
        'distinct = hash of the serialised case')
MIN_NONTRIVIAL = {'quick': 2000, 'thorough': 50000}
ASSUMPTIONS = ['NumPy is the reference semantics', 'numba disabled as in the repository test configuration',
               'operations where NumPy itself raises or yields inf/nan are not judged (only the stored-entry invariant applies)']


def required(tier):
    return ['op', 'inplace', 'getitem', 'setitem', 'reduce', 'construct', 'reject', 'history', 'enum', 'invariant']

# ---------------------------------------------------------------------------
# building operands from descriptions

def build(d):
    k, v = d['k'], d['v']
    if k == 'sv': return SV(list(v))
    if k == 'slv': return SLV([bool(i) for i in v])
    if k == 'sa': return SA([list(r) for r in v])
    if k == 'sab': return SA([[bool(i) for i in r] for r in v])
    if k == 'scalar': return float(v)
    if k == 'iscalar': return int(v)
    if k == 'bscalar': return bool(v)
    if k == 'npscalar': return np.float64(v)
    if k == 'arr0': return np.array(float(v))
    if k in ('list', 'list1'): return [float(i) for i in v]
    if k in ('arr1', 'arr1_1'): return np.array(v, dtype=float)
    if k == 'barr1': return np.array(v, dtype=bool)
    if k == 'blist': return [bool(i) for i in v]
    if k == 'list2': return [[float(i) for i in r] for r in v]
    if k == 'arr2': return np.array(v, dtype=float)
    if k == 'barr2': return np.array(v, dtype=bool)
    raise ValueError(k)


class Corrupt(Exception):
    pass


def dense(x):
    if isinstance(x, SPARSE):
        try:
            return x.to_array()
        except Exception as e:
            raise Corrupt(f'to_array() fails ({type(e).__name__}: {e}); invariant: {invariant(x)}')
    return np.asarray(x)


def twin(d):
    """NumPy twin of an operand description."""
    k, v = d['k'], d['v']
    if k in ('sv', 'list', 'list1', 'arr1', 'arr1_1'): return np.array(v, dtype=float)
    if k in ('slv', 'barr1', 'blist'): return np.array(v, dtype=bool)
    if k in ('sa', 'list2', 'arr2'): return np.array(v, dtype=float).reshape(len(v), -1)
    if k in ('sab', 'barr2'): return np.array(v, dtype=bool).reshape(len(v), -1)
    if k in ('scalar', 'npscalar'): return float(v)
    if k == 'iscalar': return int(v)
    if k == 'bscalar': return bool(v)
    if k == 'arr0': return np.array(float(v))
    raise ValueError(k)


def invariant(x, depth=0):
    """stored entries are exactly the non-zero elements, keys are ints inside the size, rows share one size."""
    if isinstance(x, SA):
        sizes = {r.size for r in x.rows}
        if len(sizes) > 1:
            return 'rows of different sizes %s' % sorted(sizes)
        for r in x.rows:
            e = invariant(r)
            if e: return e
    elif isinstance(x, SV):
        for i, v in x.dct.items():
            if not isinstance(i, (int, np.integer)) or isinstance(i, (bool, np.bool_)): return f'non-integer key {i!r}'
            if not (0 <= i < x.size): return f'key {i} outside size {x.size}'
            if v == 0: return f'stored zero at {i}'
            if not isinstance(v, (bool, np.bool_, int, float, np.integer, np.floating)): return f'non-numeric value {type(v).__name__} at {i}'
            if v != v: return f'stored nan at {i}'
    elif isinstance(x, SLV):
        for i in x.set:
            if not isinstance(i, (int, np.integer)) or isinstance(i, (bool, np.bool_)): return f'non-integer key {i!r}'
            if not (0 <= i < x.size): return f'key {i} outside size {x.size}'
    return None


BIN = {'add': op.add, 'sub': op.sub, 'mul': op.mul, 'truediv': op.truediv, 'eq': op.eq, 'ne': op.ne,
       'gt': op.gt, 'lt': op.lt, 'ge': op.ge, 'le': op.le}
LOG = {'and': op.and_, 'or': op.or_, 'xor': op.xor}
INP = {'iadd': op.iadd, 'isub': op.isub, 'imul': op.imul, 'itruediv': op.itruediv}
ILOG = {'iand': op.iand, 'ior': op.ior, 'ixor': op.ixor}
REF = {'radd': lambda a, b: b + a, 'rsub': lambda a, b: b - a, 'rmul': lambda a, b: b * a, 'rtruediv': lambda a, b: b / a}
UN = {'neg': op.neg, 'abs': abs, 'invert': op.invert}
TABLES = {'bin': BIN, 'log': LOG, 'inp': INP, 'ilog': ILOG, 'ref': REF, 'un': UN}
BOOLK = ('bscalar', 'barr1', 'slv', 'barr2', 'sab', 'blist')


REFUSALS = ('cannot broadcast', 'cannot set an array element', 'shape mismatch', 'can be at most', 'must use tuple',
            'too many indices', 'too few indices', 'cannot cast boolean')


def explicit_refusal(e):
    return isinstance(e, (ValueError, IndexError, TypeError, NotImplementedError)) and any(m in str(e) for m in REFUSALS)


def same_values(dr, r):
    dr = np.asarray(dr); r = np.asarray(r)
    if dr.shape != r.shape:
        return False, f'shape {dr.shape} vs numpy {r.shape}'
    try:
        a = dr.astype(float); b = r.astype(float)
    except Exception as e:
        return False, f'not numeric: {e}'
    if np.array_equal(a, b):
        return True, ''
    return False, f'values {a.tolist()} vs numpy {b.tolist()}'


def nontrivial_image(x):
    a = np.asarray(x, dtype=float).ravel()
    return a.size >= 2 and (a != 0).any() and (a == 0).any()

# ---------------------------------------------------------------------------
# case executors.  Each returns nothing; they record through rec.

def run_op(case, rec):
    fam, o = case['fam'], case['o']
    fn = TABLES[fam][o]
    a = build(case['L']); da = twin(case['L'])
    if fam == 'un':
        try:
            with np.errstate(all='ignore'): ref = fn(da.copy())
        except Exception:
            rec.refuse('numpy raises'); return
        try: res = fn(a)
        except Exception as e:
            rec.exception('op', e, what=f'unary {o} on {case["L"]["k"]} raised'); return
        okv, why = same_values(dense(res), ref)
        rec.check(okv, 'op', f'unary/{o}/{case["L"]["k"]}', f'unary {o}: {why}')
        e = invariant(res) or invariant(a)
        rec.check(e is None, 'invariant', f'unary/{o}', f'invariant after unary {o}: {e}')
        ok2, _ = same_values(dense(a), da)
        rec.check(ok2, 'operand-unchanged', f'unary/{o}', f'unary {o} changed its operand')
        if nontrivial_image(ref): rec.mark_nontrivial(case_hash(case))
        return
    alias = case['R'] == 'same'
    if alias:
        b, db = a, da
        rk = case['L']['k']
    else:
        b = build(case['R']); db = twin(case['R']); rk = case['R']['k']
    lk = case['L']['k']
    inplace = fam in ('inp', 'ilog')
    da0 = da.copy()
    db0 = db.copy() if isinstance(db, np.ndarray) else db
    # reference
    try:
        with np.errstate(all='ignore'):
            if alias:
                x = da.copy(); ref = fn(x, x)
            else:
                ref = fn(da.copy(), db.copy() if isinstance(db, np.ndarray) else db)
        rerr = None
    except Exception as e:
        ref = None; rerr = e
    if rerr is None:
        try:
            if not np.all(np.isfinite(np.asarray(ref, dtype=float))):
                rec.refuse('numpy result not finite (not judged)'); ref = None; rerr = 'nonfinite'
        except Exception:
            rec.refuse('numpy result not numeric'); return
    if inplace and rerr is None and np.asarray(ref).shape != da0.shape:
        rec.refuse('in-place growth (not judged)'); return
    try:
        res = fn(a, b); serr = None
    except Exception as e:
        res = None; serr = e
    clause = 'inplace' if inplace else 'op'
    tag = f'{o}/{lk}/{"same" if alias else rk}'
    if rerr is not None:
        # NumPy has no answer: only the representation invariant is judged
        rec.refuse('numpy raises or non-finite: only invariant judged')
        if serr is None:
            e = invariant(res) or invariant(a) or (invariant(b) if isinstance(b, SPARSE) else None)
            rec.check(e is None, 'invariant', f'{tag}', f'invariant after {o}: {e}')
        return
    if serr is not None:
        if isinstance(serr, ZeroDivisionError):
            rec.refuse('ZeroDivisionError (library-specific, not judged)'); return
        rec.exception(clause, serr, what=f'{o}({lk},{rk}) raised {type(serr).__name__}: {serr} but NumPy computes a result')
        return
    okv, why = same_values(dense(res), ref)
    rec.check(okv, clause, f'value/{tag}', f'{o}({lk},{rk}): {why}')
    if inplace:
        rec.check(res is a, 'inplace', f'identity/{tag}', f'in-place {o} returned a different object')
    else:
        ok2, why2 = same_values(dense(a), da0)
        rec.check(ok2, 'operand-unchanged', f'left/{tag}', f'{o} mutated its left operand: {why2}')
    if isinstance(b, SPARSE) or isinstance(b, (np.ndarray, list)):
        if not alias:
            ok3, why3 = same_values(dense(b), db0)
            rec.check(ok3, 'operand-unchanged', f'right/{tag}', f'{o} mutated its right operand: {why3}')
    e = invariant(res) or invariant(a) or (invariant(b) if isinstance(b, SPARSE) else None)
    rec.check(e is None, 'invariant', f'{tag}', f'invariant after {o}({lk},{rk}): {e}')
    if nontrivial_image(ref): rec.mark_nontrivial(case_hash(case))


def mk_index(ix):
    """index description -> (python index for sparse, python index for numpy)"""
    t = ix['t']
    if t == 'int': return ix['i'], ix['i']
    if t == 'slice':
        s = slice(ix.get('a'), ix.get('b'), ix.get('c')); return s, s
    if t == 'ilist': return list(ix['v']), list(ix['v'])
    if t == 'iarr': return np.array(ix['v'], dtype=int), np.array(ix['v'], dtype=int)
    if t == 'blist': return [bool(i) for i in ix['v']], np.array(ix['v'], dtype=bool)
    if t == 'barr': return np.array(ix['v'], dtype=bool), np.array(ix['v'], dtype=bool)
    if t == 'barr2': return np.array(ix['v'], dtype=bool), np.array(ix['v'], dtype=bool)
    if t == 'tuple':
        a = [mk_index(i) for i in ix['v']]
        return tuple(i[0] for i in a), tuple(i[1] for i in a)
    if t == 'ellipsis_all': return slice(None), slice(None)
    raise ValueError(t)


def run_get(case, rec):
    a = build(case['L']); da = twin(case['L'])
    si, ni = mk_index(case['ix'])
    try: ref = da[ni]
    except Exception:
        rec.refuse('numpy index error'); return
    if np.size(ref) == 0:
        rec.refuse('empty selection (zero-size result, not judged)'); return
    try: res = a[si]
    except Exception as e:
        if explicit_refusal(e): rec.refuse('library refuses this index form explicitly'); return
        rec.exception('getitem', e, what=f'getitem {case["ix"]} on {case["L"]["k"]} raised but NumPy returns'); return
    okv, why = same_values(dense(res), ref)
    rec.check(okv, 'getitem', f'value/{case["L"]["k"]}/{ix_tag(case["ix"])}', f'getitem {case["ix"]}: {why}')
    e = invariant(a) or (invariant(res) if isinstance(res, SPARSE) else None)
    rec.check(e is None, 'invariant', 'getitem', f'invariant after getitem: {e}')
    ok2, _ = same_values(dense(a), da)
    rec.check(ok2, 'operand-unchanged', 'getitem', 'getitem changed the array')
    if nontrivial_image(da): rec.mark_nontrivial(case_hash(case))


def index_in_range(ix, shape):
    """True when every int index / slice bound of ix lies inside shape (out-of-range forms are not generated: DESIGN C09)."""
    t = ix['t']
    if t == 'tuple':
        return len(ix['v']) == len(shape) and all(index_in_range(i, (n,)) for i, n in zip(ix['v'], shape))
    n = shape[0]
    if t == 'int': return 0 <= ix['i'] < n
    if t == 'slice': return all(ix.get(k) is None or 0 <= ix.get(k) <= n for k in ('a', 'b'))
    if t in ('ilist', 'iarr'): return all(0 <= i < n for i in ix['v'])
    if t in ('blist', 'barr'): return len(ix['v']) == n
    if t == 'barr2': return np.shape(ix['v']) == tuple(shape)
    return True


def ix_tag(ix):
    if ix['t'] == 'tuple':
        return '[' + ','.join(ix_tag(i) for i in ix['v']) + ']'
    if ix['t'] == 'slice':
        return 'slice' if (ix.get('a') is not None or ix.get('b') is not None or ix.get('c') is not None) else ':'
    return ix['t']


def run_set(case, rec):
    a = build(case['L']); da = twin(case['L'])
    si, ni = mk_index(case['ix'])
    alias = case['V'] == 'same'
    if alias:
        v, dv = a, da.copy()
    else:
        v = build(case['V']); dv = twin(case['V'])
    dv0 = dv.copy() if isinstance(dv, np.ndarray) else dv
    ref = da.copy()
    try:
        ref[ni] = dv
        rerr = None
    except Exception as e:
        rerr = e
    try:
        a[si] = v; serr = None
    except Exception as e:
        serr = e
    tag = f'{case["L"]["k"]}/{ix_tag(case["ix"])}/{"same" if alias else case["V"]["k"]}'
    if rerr is not None:
        # NumPy rejects (shape mismatch): the property demands rejection too
        if case.get('must_reject'):
            e = None
            if serr is None:
                okv, _ = same_values(dense(a), da)
                rec.check(False, 'reject', f'setitem-accepted/{tag}',
                          f'setitem {case["ix"]} with value of shape {np.shape(dv)} on shape {da.shape} accepted silently '
                          f'(NumPy: {type(rerr).__name__}); array now {dense(a).tolist()}, invariant: {invariant(a)}')
            else:
                rec.ok('reject')
                rec.mark_nontrivial(case_hash(case))
        else:
            rec.refuse('numpy raises on setitem (not judged)')
            if serr is None:
                e = invariant(a)
                rec.check(e is None, 'invariant', f'setitem/{tag}', f'invariant after setitem: {e}')
        return
    if serr is not None:
        if explicit_refusal(serr): rec.refuse('library refuses this index/value form explicitly'); return
        rec.exception('setitem', serr, what=f'setitem {case["ix"]} = {case["V"] if not alias else "self"} on {case["L"]["k"]}{list(da.shape)} raised but NumPy accepts')
        return
    okv, why = same_values(dense(a), ref)
    rec.check(okv, 'setitem', f'value/{tag}', f'setitem {case["ix"]}: {why}')
    e = invariant(a) or (invariant(v) if isinstance(v, SPARSE) else None)
    rec.check(e is None, 'invariant', f'setitem/{tag}', f'invariant after setitem: {e}')
    if not alias and isinstance(v, SPARSE + (np.ndarray, list)):
        ok3, why3 = same_values(dense(v), dv0)
        rec.check(ok3, 'operand-unchanged', f'setitem-value/{tag}', f'setitem mutated the assigned value: {why3}')
    if nontrivial_image(ref): rec.mark_nontrivial(case_hash(case))


def run_reduce(case, rec):
    a = build(case['L']); da = twin(case['L'])
    name, axis, keep = case['f'], case['axis'], case['keepdims']
    kw = {}
    if axis is not None: kw['axis'] = axis
    if keep: kw['keepdims'] = True
    try:
        with np.errstate(all='ignore'): ref = getattr(da, name)(**kw)
    except Exception:
        rec.refuse('numpy raises in reduction'); return
    try: res = getattr(a, name)(**kw)
    except Exception as e:
        rec.exception('reduce', e, what=f'{name}({kw}) raised on {case["L"]}'); return
    dr = np.asarray(dense(res), dtype=float); r = np.asarray(ref, dtype=float)
    scale = float(np.abs(da.astype(float)).max()) if da.size else 0.0   # summation order differs: cancellation error is relative to the largest addend
    good = dr.shape == r.shape and np.allclose(dr, r, rtol=1e-12, atol=1e-13 * scale * max(1, da.size))
    rec.check(good, 'reduce', f'{name}/axis={axis}/keepdims={keep}/{case["L"]["k"]}',
              f'{name}({kw}) = {dr.tolist()} (shape {dr.shape}) vs numpy {r.tolist()} (shape {r.shape})')
    e = invariant(a) or (invariant(res) if isinstance(res, SPARSE) else None)
    rec.check(e is None, 'invariant', f'reduce/{name}', f'invariant after {name}: {e}')
    ok2, _ = same_values(dense(a), da)
    rec.check(ok2, 'operand-unchanged', f'reduce/{name}', f'{name} changed the array')
    if nontrivial_image(da): rec.mark_nontrivial(case_hash(case))


def run_construct(case, rec):
    how = case['how']; d = case['L']; da = twin(d)
    try:
        if how == 'sparse()':
            src = build({'k': {'sv': 'list', 'slv': 'blist', 'sa': 'list2', 'sab': 'barr2'}[d['k']], 'v': d['v']})
            x = sp.sparse(src)
        elif how == 'sparse(ndarray)':
            x = sp.sparse(da.copy())
        elif how == 'dict':
            if d['k'] == 'sv': x = SV({i: v for i, v in enumerate(d['v'])}, size=len(d['v']))
            else: x = sp.sparse([{i: v for i, v in enumerate(r)} for r in d['v']], vector_size=len(d['v'][0]))
        elif how == 'set':
            x = SLV({i for i, v in enumerate(d['v']) if v}, size=len(d['v']))
        elif how == 'copy':
            y = build(d); x = y.copy()
            # independence of the copy
            if da.size:
                if isinstance(x, SA): x.rows[0][0] = 0 if da[0, 0] else 1
                else: x[0] = 0 if da[0] else 1
                ok, _ = same_values(dense(y), da)
                rec.check(ok, 'construct', 'copy-independent', 'writing to a copy changed the original')
                x = y.copy()
        elif how == 'tolist':
            y = build(d); lst = y.tolist()
            ok, why = same_values(np.array(lst), da)
            rec.check(ok, 'construct', 'tolist', f'tolist: {why}')
            x = y
        elif how == 'flat':
            y = build(d); flat = y.to_flat_array()
            ok, why = same_values(flat, da.ravel())
            rec.check(ok, 'construct', 'to_flat_array', f'to_flat_array: {why}')
            z = build(d)
            if not isinstance(z, SLV): z.clear()
            z.from_flat_array(flat); x = z
        elif how == 'sparse(sparse)':
            y = build(d); x = sp.sparse(y)
            rec.check(x is y, 'construct', 'sparse-idempotent', 'sparse(x) of a sparse object is not x')
        elif how == 'nonzero':
            y = build(d); idx = y.nonzero_index()
            ref = np.nonzero(da)
            ok = all(sorted(zip(*[list(i) for i in idx])) == sorted(zip(*[i.tolist() for i in ref])) for _ in [0])
            rec.check(ok, 'construct', 'nonzero_index', f'nonzero_index {idx} vs numpy {ref}')
            x = y
        else:
            raise ValueError(how)
    except Exception as e:
        rec.exception('construct', e, what=f'{how} raised on {d}'); return
    ok, why = same_values(dense(x), da)
    rec.check(ok, 'construct', f'{how}/{d["k"]}', f'{how}: {why}')
    e = invariant(x)
    rec.check(e is None, 'invariant', f'construct/{how}', f'invariant after {how}: {e}')
    if nontrivial_image(da): rec.mark_nontrivial(case_hash(case))


def run_reject(case, rec):
    """operations of the rejection domain R must raise."""
    kind = case['kind']
    tag = case['tag']
    try:
        if kind == 'op':
            a = build(case['L']); b = build(case['R'])
            fam, o = case['fam'], case['o']
            da = dense(a).copy()
            res = TABLES[fam][o](a, b)
            after = dense(a)
            rec.check(False, 'reject', f'accepted/{tag}',
                      f'{o}({case["L"]["k"]}{list(np.shape(da))},{case["R"]["k"]}{list(np.shape(dense(b)))}) shape mismatch accepted; '
                      f'result shape {np.shape(dense(res))}')
            return
        elif kind == 'readonly':
            a = build(case['L']); a.setflags(0)
            da = dense(a).copy()
            what = case['o']
            if what == 'clear': a.clear()
            elif what in ('setitem', 'setitem-slice', 'setitem-fancy'): a[mk_index(case['ix'])[0]] = build(case['R'])
            elif what == 'setitem-mask': a[np.array(case['mask'])] = build(case['R'])
            elif what == 'copy_like': a.copy_like(build({'k': case['L']['k'], 'v': (np.array(case['L']['v']) + 1.).tolist()}))
            elif what == 'mix_from': a.mix_from([build({'k': 'sv', 'v': [1.] * len(case['L']['v'])})])
            elif what == 'remove_negatives': a.remove_negatives()
            elif what == 'from_flat_array': a.from_flat_array(np.ones(int(np.size(da))))
            elif what == 'row-view-iadd':
                row = a[0]; row += build(case['R'])
            else: TABLES['inp'][what](a, build(case['R']))
            after = dense(a)
            changed = not np.array_equal(after, da)
            rec.check(False, 'reject', f'readonly-accepted/{tag}',
                      f'{what} on a read-only {case["L"]["k"]} did not raise (content changed: {changed})')
            return
    except (ValueError, IndexError) as e:
        rec.ok('reject'); rec.mark_nontrivial(case_hash(case))
        if kind == 'readonly':
            okv, _ = same_values(dense(a), da)
            rec.check(okv, 'reject', f'readonly-partial-write/{tag}', 'read-only rejection left the content changed')
    except Exception as e:
        # rejected, but through an internal error type: still a rejection; record the type as a refusal note
        rec.ok('reject'); rec.refuse(f'rejection through {type(e).__name__}')
        rec.mark_nontrivial(case_hash(case))

# ---------------------------------------------------------------------------
# histories

def run_history(case, rec):
    """pool of objects with NumPy twins updated in lock-step and compared after every step."""
    pool = []; twins = []
    for d in case['pool']:
        pool.append(build(d)); twins.append(twin(d))
    nt = False
    for n, st in enumerate(case['steps']):
        t = st['t']
        try:
            if t == 'bin':   # pool[k] = pool[i] op pool[j]|const
                fn = BIN[st['o']]
                b = pool[st['j']] if 'j' in st else build(st['R']); db = twins[st['j']] if 'j' in st else twin(st['R'])
                if isinstance(pool[st['i']], SLV) or (isinstance(b, SLV) and st['o'] in ('add', 'sub', 'mul', 'truediv')) \
                        or twins[st['i']].dtype == bool: rec.refuse('history step skipped: logical operand in arithmetic'); continue
                try:
                    with np.errstate(all='ignore'): ref = fn(twins[st['i']], db)
                except Exception: rec.refuse('history step skipped: numpy rejects'); continue
                if not np.all(np.isfinite(np.asarray(ref, dtype=float))): rec.refuse('history step skipped: non-finite'); continue
                if np.asarray(ref).dtype == bool and st['o'] in ('add', 'sub', 'mul', 'truediv'): rec.refuse('history step skipped: bool arithmetic'); continue
                res = fn(pool[st['i']], b)
                pool[st['k']] = res; twins[st['k']] = np.array(ref)
            elif t == 'inp':
                fn = INP[st['o']]
                b = pool[st['j']] if 'j' in st else build(st['R']); db = twins[st['j']] if 'j' in st else twin(st['R'])
                tw = twins[st['i']]
                if tw.dtype == bool or isinstance(pool[st['i']], SLV) or np.asarray(db).dtype == bool: rec.refuse('history step skipped: in-place arithmetic on/with logical'); continue
                try:
                    with np.errstate(all='ignore'): ref = fn(tw.copy(), db.copy() if isinstance(db, np.ndarray) else db)
                except Exception: rec.refuse('history step skipped: numpy rejects'); continue
                if ref.shape != tw.shape or not np.all(np.isfinite(ref)): rec.refuse('history step skipped: growth/non-finite'); continue
                if isinstance(db, np.ndarray) and np.shares_memory(db, tw) and b is not pool[st['i']]:
                    rec.refuse('history step skipped: operand is a view of the target (only a op= a is in D)'); continue
                with np.errstate(all='ignore'): fn(tw, db.copy() if (isinstance(db, np.ndarray) and np.shares_memory(db, tw)) else db)
                r = fn(pool[st['i']], b)
                if r is not pool[st['i']]:
                    rec.check(False, 'history', f'inplace-identity/{st["o"]}', 'in-place operator returned another object'); return
            elif t == 'set':
                si, ni = mk_index(st['ix'])
                v = pool[st['j']] if 'j' in st else build(st['R']); dv = twins[st['j']] if 'j' in st else twin(st['R'])
                tw = twins[st['i']]
                if tw.dtype == bool and np.asarray(dv).dtype != bool: rec.refuse('history step skipped: float into logical'); continue
                if not index_in_range(st['ix'], tw.shape): rec.refuse('history step skipped: index outside current shape'); continue
                if isinstance(dv, np.ndarray) and np.shares_memory(dv, tw) and not (v is pool[st['i']] and st['ix'] == {'t': 'slice'}):
                    rec.refuse('history step skipped: value overlaps target (only a[:] = a is in D)'); continue
                trial = tw.copy()
                try: trial[ni] = dv
                except Exception: rec.refuse('history step skipped: numpy rejects'); continue
                tw[ni] = dv.copy() if isinstance(dv, np.ndarray) else dv
                pool[st['i']][si] = v
            elif t == 'row':  # pool[k] = view of row r of array pool[i]
                if not isinstance(pool[st['i']], SA) or st['r'] >= len(pool[st['i']].rows): rec.refuse('history step skipped: no such row'); continue
                pool[st['k']] = pool[st['i']][st['r']]; twins[st['k']] = twins[st['i']][st['r']]
            elif t == 'copy':
                pool[st['k']] = pool[st['i']].copy(); twins[st['k']] = twins[st['i']].copy()
            elif t == 'neg':
                if twins[st['i']].dtype == bool: rec.refuse('history step skipped: neg of logical'); continue
                pool[st['k']] = -pool[st['i']]; twins[st['k']] = -twins[st['i']]
            else:
                raise ValueError(t)
        except Corrupt:
            raise
        except Exception as e:
            if isinstance(e, ZeroDivisionError): rec.refuse('ZeroDivisionError (library-specific, not judged)'); return
            if explicit_refusal(e): rec.refuse('history ended: library refuses a step explicitly'); return
            rec.exception('history', e, what=f'history step {n} {st} raised: {type(e).__name__}: {e}'); return
        for idx, (p, tw) in enumerate(zip(pool, twins)):
            okv, why = same_values(dense(p), tw)
            if not okv:
                rec.check(False, 'history', f'value/after-{t}/{st.get("o", "")}', f'after step {n} {st}: object {idx}: {why}'); return
            e = invariant(p)
            if e:
                rec.check(False, 'invariant', f'history/after-{t}/{st.get("o", "")}', f'after step {n} {st}: object {idx}: {e}'); return
            if nontrivial_image(tw): nt = True
        rec.ok('history')
    rec.ok('invariant')
    if nt: rec.mark_nontrivial(case_hash(case))


RUNNERS = {'op': run_op, 'get': run_get, 'set': run_set, 'red': run_reduce, 'con': run_construct, 'rej': run_reject, 'hist': run_history}


def run_case(case, rec):
    rec.begin_case(case)
    try:
        RUNNERS[case['t']](case, rec)
    except Corrupt as e:
        rec.violation(f'C09/invariant/corrupt/{case["t"]}/{case.get("o", ix_tag(case["ix"]) if "ix" in case else "")}',
                      f'object left in a state that cannot be converted to dense: {e}')
    except Exception as e:   # harness error: never silently dropped
        rec.exception('harness', e, what=f'harness/unclassified error in case type {case["t"]}')


def replay(case, rec):
    run_case(case, rec)

# ---------------------------------------------------------------------------
# generators

def values(rng, big=True):
    a = rng.choice([0.25, 3., 7.5])
    v = [0., 0., 0., 1., -1., 2., 0.5, -0.5, a, -a, 1 / 3]
    if big: v += [1e-100, 1e100, -1e100]
    return v


def fv(rng, n, vals): return [rng.choice(vals) for _ in range(n)]
def bv(rng, n): return [rng.random() < 0.5 for _ in range(n)]


def gen_left(rng, m, n, vals):
    k = rng.choice(['sv', 'sv', 'slv', 'sa', 'sa', 'sab'])
    if k == 'sv': return {'k': k, 'v': fv(rng, n, vals)}
    if k == 'slv': return {'k': k, 'v': bv(rng, n)}
    if k == 'sa': return {'k': k, 'v': [fv(rng, n, vals) for _ in range(m)]}
    return {'k': k, 'v': [bv(rng, n) for _ in range(m)]}


def gen_right(rng, lk, m, n, vals):
    ks = ['scalar', 'bscalar', 'npscalar', 'arr0', 'list', 'arr1', 'barr1', 'sv', 'slv', 'list1', 'arr1_1', 'sv1', 'slv1', 'iscalar']
    if lk in ('sa', 'sab'): ks += ['arr2', 'barr2', 'sa', 'sab', 'sa1n', 'list2', 'arr2', 'sa']
    k = rng.choice(ks)
    if k == 'scalar': return {'k': k, 'v': rng.choice(vals)}
    if k == 'iscalar': return {'k': k, 'v': rng.choice([0, 1, 2, -1])}
    if k == 'bscalar': return {'k': k, 'v': rng.random() < .5}
    if k == 'npscalar': return {'k': k, 'v': rng.choice(vals)}
    if k == 'arr0': return {'k': k, 'v': rng.choice(vals)}
    if k == 'list': return {'k': k, 'v': fv(rng, n, vals)}
    if k == 'arr1': return {'k': k, 'v': fv(rng, n, vals)}
    if k == 'barr1': return {'k': k, 'v': bv(rng, n)}
    if k == 'sv': return {'k': k, 'v': fv(rng, n, vals)}
    if k == 'slv': return {'k': k, 'v': bv(rng, n)}
    if k == 'list1': return {'k': 'list', 'v': fv(rng, 1, vals)}
    if k == 'arr1_1': return {'k': 'arr1', 'v': fv(rng, 1, vals)}
    if k == 'sv1': return {'k': 'sv', 'v': fv(rng, 1, vals)}
    if k == 'slv1': return {'k': 'slv', 'v': bv(rng, 1)}
    if k == 'arr2': return {'k': k, 'v': [fv(rng, n, vals) for _ in range(m)]}
    if k == 'list2': return {'k': k, 'v': [fv(rng, n, vals) for _ in range(m)]}
    if k == 'barr2': return {'k': k, 'v': [bv(rng, n) for _ in range(m)]}
    if k == 'sa': return {'k': k, 'v': [fv(rng, n, vals) for _ in range(m)]}
    if k == 'sab': return {'k': k, 'v': [bv(rng, n) for _ in range(m)]}
    if k == 'sa1n': return {'k': 'sa', 'v': [fv(rng, n, vals)]}


def is_sparse_kind(k): return k in ('sv', 'slv', 'sa', 'sab')


def gen_op(rng):
    vals = values(rng)
    m = rng.choice([1, 2, 3]); n = rng.choice([1, 2, 3, 4, 6])
    L = gen_left(rng, m, n, vals); lk = L['k']
    logical = lk in ('slv', 'sab')
    if rng.random() < 0.06:
        o = rng.choice(['neg', 'abs'] if not logical else ['invert', 'abs'])
        return {'t': 'op', 'fam': 'un', 'o': o, 'L': L}
    fam = rng.choice(['bin', 'bin', 'inp', 'ref', 'log'] if not logical else ['bin', 'log', 'ilog', 'inp'])
    o = rng.choice(list(TABLES[fam]))
    if rng.random() < 0.05 and fam != 'ref':
        if logical and fam in ('bin', 'inp') and o in ('add', 'sub', 'mul', 'truediv', 'iadd', 'isub', 'imul', 'itruediv'):
            return None
        if not logical and fam in ('log', 'ilog'): return None
        return {'t': 'op', 'fam': fam, 'o': o, 'L': L, 'R': 'same'}
    R = gen_right(rng, lk, m, n, vals); rk = R['k']
    if fam == 'ref' and is_sparse_kind(rk): return None
    if fam in ('log', 'ilog'):
        if not logical or rk not in BOOLK: return None
    if logical and fam == 'inp' and rk not in BOOLK: return None
    if logical and o in ('sub', 'isub'): return None
    if fam in ('inp', 'ilog'):
        # target must absorb the broadcast
        sa_ = np.shape(twin(L)); sb_ = np.shape(twin(R))
        try:
            if np.broadcast_shapes(sa_, sb_) != sa_: return None
        except ValueError:
            return None
    else:
        try: np.broadcast_shapes(np.shape(twin(L)), np.shape(twin(R)))
        except ValueError: return None
    # D: an array against an array needs equal row counts or a single row on one side
    return {'t': 'op', 'fam': fam, 'o': o, 'L': L, 'R': R}


def gen_index(rng, shape):
    if len(shape) == 1:
        n = shape[0]
        t = rng.choice(['int', 'slice', 'slice', 'ilist', 'iarr', 'blist', 'barr', 'all'])
        if t == 'int': return {'t': 'int', 'i': rng.randrange(n)}
        if t == 'all': return {'t': 'slice'}
        if t == 'slice':
            a = rng.choice([None, 0, rng.randrange(n + 1)]); b = rng.choice([None, n, rng.randrange(n + 1)]); c = rng.choice([None, 1, 2])
            return {'t': 'slice', 'a': a, 'b': b, 'c': c}
        if t in ('ilist', 'iarr'):
            k = rng.randrange(1, n + 1)
            v = rng.sample(range(n), k) if rng.random() < 0.7 else [rng.randrange(n) for _ in range(k)]
            return {'t': t, 'v': v}
        return {'t': t, 'v': bv(rng, n)}
    m, n = shape
    t = rng.choice(['row', 'rowslice', 'rows', 'brows', 'ij', ':j', 'i:', 'pairs', 'rows_j', ':cols', 'mask2', 'rslice_cslice', 'i_cslice', 'rows_cslice', 'all', 'rslice_j'])
    def sl(k):
        return {'t': 'slice', 'a': rng.choice([None, 0, rng.randrange(k + 1)]), 'b': rng.choice([None, k, rng.randrange(k + 1)]), 'c': rng.choice([None, 1, 2])}
    if t == 'row': return {'t': 'int', 'i': rng.randrange(m)}
    if t == 'all': return {'t': 'slice'}
    if t == 'rowslice': return sl(m)
    if t == 'rows': return {'t': rng.choice(['ilist', 'iarr']), 'v': [rng.randrange(m) for _ in range(rng.randrange(1, m + 1))]}
    if t == 'brows': return {'t': 'barr', 'v': bv(rng, m)}
    if t == 'ij': return {'t': 'tuple', 'v': [{'t': 'int', 'i': rng.randrange(m)}, {'t': 'int', 'i': rng.randrange(n)}]}
    if t == ':j': return {'t': 'tuple', 'v': [{'t': 'slice'}, {'t': 'int', 'i': rng.randrange(n)}]}
    if t == 'i:': return {'t': 'tuple', 'v': [{'t': 'int', 'i': rng.randrange(m)}, {'t': 'slice'}]}
    if t == 'pairs':
        k = rng.randrange(1, 4)
        return {'t': 'tuple', 'v': [{'t': 'ilist', 'v': [rng.randrange(m) for _ in range(k)]}, {'t': 'ilist', 'v': [rng.randrange(n) for _ in range(k)]}]}
    if t == 'rows_j': return {'t': 'tuple', 'v': [{'t': 'ilist', 'v': [rng.randrange(m) for _ in range(rng.randrange(1, 3))]}, {'t': 'int', 'i': rng.randrange(n)}]}
    if t == ':cols': return {'t': 'tuple', 'v': [{'t': 'slice'}, {'t': 'ilist', 'v': rng.sample(range(n), rng.randrange(1, n + 1))}]}
    if t == 'mask2': return {'t': 'barr2', 'v': [bv(rng, n) for _ in range(m)]}
    if t == 'rslice_cslice': return {'t': 'tuple', 'v': [sl(m), sl(n)]}
    if t == 'i_cslice': return {'t': 'tuple', 'v': [{'t': 'int', 'i': rng.randrange(m)}, sl(n)]}
    if t == 'rows_cslice': return {'t': 'tuple', 'v': [{'t': 'ilist', 'v': [rng.randrange(m) for _ in range(rng.randrange(1, 3))]}, sl(n)]}
    if t == 'rslice_j': return {'t': 'tuple', 'v': [sl(m), {'t': 'int', 'i': rng.randrange(n)}]}


def gen_get(rng):
    vals = values(rng)
    m = rng.choice([1, 2, 3]); n = rng.choice([1, 2, 3, 4, 6])
    L = gen_left(rng, m, n, vals)
    shape = np.shape(twin(L))
    return {'t': 'get', 'L': L, 'ix': gen_index(rng, shape)}


def gen_set(rng):
    vals = values(rng)
    m = rng.choice([1, 2, 3]); n = rng.choice([1, 2, 3, 4, 6])
    L = gen_left(rng, m, n, vals)
    tw = twin(L); shape = tw.shape
    ix = gen_index(rng, shape)
    try: target = tw[mk_index(ix)[1]]
    except Exception: return None
    tshape = np.shape(target)
    logical = L['k'] in ('slv', 'sab')
    r = rng.random()
    if r < 0.05:
        return {'t': 'set', 'L': L, 'ix': {'t': 'slice'}, 'V': 'same'}   # a[:] = a (the only aliased assignment in D)
    def val(shape_, kind=None):
        if len(shape_) == 0:
            if logical: return {'k': 'bscalar', 'v': rng.random() < .5}
            return {'k': rng.choice(['scalar', 'npscalar', 'arr0', 'iscalar']), 'v': rng.choice(vals + [0, 0]) if True else 0}
        if len(shape_) == 1:
            n_ = shape_[0]
            if logical: return {'k': rng.choice(['barr1', 'slv', 'blist']), 'v': bv(rng, n_)}
            return {'k': rng.choice(['list', 'arr1', 'sv']), 'v': fv(rng, n_, vals)}
        m_, n_ = shape_
        if logical: return {'k': rng.choice(['barr2', 'sab']), 'v': [bv(rng, n_) for _ in range(m_)]}
        return {'k': rng.choice(['list2', 'arr2', 'sa']), 'v': [fv(rng, n_, vals) for _ in range(m_)]}
    if len(tshape) and 0 in tshape: return None
    if r < 0.45 or len(tshape) == 0:
        V = val(())
        if V['k'] == 'iscalar': V['v'] = rng.choice([0, 1, 2, -1])
    elif r < 0.85:
        V = val(tshape)
    else:
        # broadcast a row over several selected rows
        if len(tshape) == 2: V = val((tshape[1],))
        else: V = val(tshape)
    return {'t': 'set', 'L': L, 'ix': ix, 'V': V}


def gen_reduce(rng):
    vals = values(rng, big=False)
    m = rng.choice([1, 2, 3]); n = rng.choice([1, 2, 3, 4, 6])
    L = gen_left(rng, m, n, vals)
    two = L['k'] in ('sa', 'sab')
    return {'t': 'red', 'L': L, 'f': rng.choice(['any', 'all', 'sum', 'mean', 'max', 'min']),
            'axis': rng.choice([None, 0, 1]) if two else rng.choice([None, None, 0]), 'keepdims': rng.random() < 0.4}


def gen_construct(rng):
    vals = values(rng)
    m = rng.choice([1, 2, 3]); n = rng.choice([1, 2, 3, 4, 6])
    L = gen_left(rng, m, n, vals)
    hows = ['sparse()', 'sparse(ndarray)', 'copy', 'tolist', 'flat', 'sparse(sparse)', 'nonzero']
    if L['k'] in ('sv', 'sa'): hows.append('dict')
    if L['k'] == 'slv': hows.append('set')
    return {'t': 'con', 'how': rng.choice(hows), 'L': L}


def gen_reject(rng):
    vals = [1., 2., -1., 0.5, 0.]
    r = rng.random()
    if r < 0.5:
        # shape mismatches
        which = rng.choice(['vec-vec', 'arr-vec', 'arr-arr-sparse', 'arr-arr-dense', 'vec-arr'])
        fam = rng.choice(['bin', 'inp']); o = rng.choice(['add', 'sub', 'mul', 'truediv', 'eq', 'lt'] if fam == 'bin' else ['iadd', 'isub', 'imul', 'itruediv'])
        if which == 'vec-vec':
            n1, n2 = rng.sample([2, 3, 4, 6], 2)
            L = {'k': 'sv', 'v': fv(rng, n1, [1., 2., -1., .5])}; R = {'k': rng.choice(['sv', 'arr1', 'list']), 'v': fv(rng, n2, [1., 2., .5])}
        elif which == 'arr-vec':
            n1, n2 = rng.sample([2, 3, 4, 6], 2); m = rng.choice([1, 2, 3])
            L = {'k': 'sa', 'v': [fv(rng, n1, [1., 2., -1., .5]) for _ in range(m)]}; R = {'k': rng.choice(['sv', 'arr1', 'list']), 'v': fv(rng, n2, [1., 2., .5])}
        elif which == 'vec-arr':
            if fam == 'inp': fam, o = 'bin', 'add'
            n1, n2 = rng.sample([2, 3, 4, 6], 2); m = rng.choice([1, 2, 3])
            L = {'k': 'sv', 'v': fv(rng, n1, [1., 2., -1., .5])}; R = {'k': rng.choice(['sa', 'arr2']), 'v': [fv(rng, n2, [1., 2., .5]) for _ in range(m)]}
        else:
            m1, m2 = rng.sample([2, 3, 4], 2); n = rng.choice([1, 2, 3])
            L = {'k': 'sa', 'v': [fv(rng, n, [1., 2., -1., .5]) for _ in range(m1)]}
            R = {'k': 'sa' if which == 'arr-arr-sparse' else rng.choice(['arr2', 'list2']), 'v': [fv(rng, n, [1., 2., .5]) for _ in range(m2)]}
        return {'t': 'rej', 'kind': 'op', 'fam': fam, 'o': o, 'L': L, 'R': R, 'tag': f'{which}/{"inplace" if fam == "inp" else "binary"}'}
    elif r < 0.8:
        n = rng.choice([2, 3, 4])
        tk = rng.choice(['sv', 'sa'])
        L = {'k': 'sv', 'v': fv(rng, n, vals)} if tk == 'sv' else {'k': 'sa', 'v': [fv(rng, n, vals) for _ in range(rng.choice([1, 2]))]}
        what = rng.choice(['iadd', 'isub', 'imul', 'itruediv', 'clear', 'setitem', 'setitem-slice', 'setitem-fancy', 'setitem-mask', 'copy_like', 'mix_from', 'remove_negatives', 'from_flat_array', 'row-view-iadd'])
        if what == 'mix_from' and tk == 'sa': what = 'copy_like'
        if what == 'row-view-iadd' and tk == 'sv': what = 'iadd'
        case = {'t': 'rej', 'kind': 'readonly', 'L': L, 'o': what, 'R': {'k': 'scalar', 'v': rng.choice([1., 2., .5])}, 'tag': f'{tk}/{what}'}
        m_ = 1 if tk == 'sv' else len(L['v'])
        if what == 'setitem':
            case['ix'] = {'t': 'int', 'i': 0} if tk == 'sv' else {'t': 'tuple', 'v': [{'t': 'int', 'i': 0}, {'t': 'int', 'i': 0}]}
        elif what == 'setitem-slice':
            case['ix'] = {'t': 'slice'} if tk == 'sv' else rng.choice([{'t': 'tuple', 'v': [{'t': 'slice'}, {'t': 'int', 'i': 0}]}, {'t': 'int', 'i': 0}, {'t': 'slice'}])
        elif what == 'setitem-fancy':
            case['ix'] = {'t': 'ilist', 'v': [0, n - 1]} if tk == 'sv' else {'t': 'tuple', 'v': [{'t': 'ilist', 'v': [0, m_ - 1]}, {'t': 'ilist', 'v': [0, n - 1]}]}
        elif what == 'setitem-mask':
            case['mask'] = [rng.random() < 0.6 for _ in range(n)] if tk == 'sv' else [[rng.random() < 0.6 for _ in range(n)] for _ in range(m_)]
        return case
    else:
        # slice assignment with a mismatching shape: NumPy raises, so must the sparse array
        tk = rng.choice(['sv', 'sa-rows', 'sv-fancy'])
        if tk == 'sv':
            n1, n2 = rng.sample([2, 3, 4, 6], 2)
            return {'t': 'set', 'L': {'k': 'sv', 'v': fv(rng, n1, vals)}, 'ix': {'t': 'slice'}, 'V': {'k': rng.choice(['list', 'arr1', 'sv']), 'v': fv(rng, n2, [1., 2., .5])}, 'must_reject': True}
        if tk == 'sv-fancy':
            n = rng.choice([3, 4, 6]); k = rng.choice([2, 3])
            k2 = rng.choice([j for j in (2, 3, 4) if j != k])
            return {'t': 'set', 'L': {'k': 'sv', 'v': fv(rng, n, vals)}, 'ix': {'t': 'ilist', 'v': rng.sample(range(n), k)}, 'V': {'k': rng.choice(['list', 'arr1']), 'v': fv(rng, k2, [1., 2., .5])}, 'must_reject': True}
        m1, m2 = rng.sample([2, 3, 4], 2); n = rng.choice([2, 3])
        return {'t': 'set', 'L': {'k': 'sa', 'v': [fv(rng, n, vals) for _ in range(m1)]}, 'ix': {'t': 'slice'},
                'V': {'k': rng.choice(['arr2', 'list2', 'sa']), 'v': [fv(rng, n, [1., 2., .5]) for _ in range(m2)]}, 'must_reject': True}


def gen_history(rng, maxlen):
    vals = [0., 0., 1., -1., 2., 0.5, -0.5, 1 / 3, 3., -3., 0.25, 1e-3, 1e3]
    m = rng.choice([1, 2, 3]); n = rng.choice([1, 2, 3, 4, 6])
    pool = []
    for _ in range(4):
        k = rng.choice(['sv', 'sv', 'sa', 'sa', 'slv'])
        if k == 'sv': pool.append({'k': k, 'v': fv(rng, n, vals)})
        elif k == 'slv': pool.append({'k': k, 'v': bv(rng, n)})
        else: pool.append({'k': k, 'v': [fv(rng, n, vals) for _ in range(m)]})
    kinds = [p['k'] for p in pool]   # tracked approximately; run_history skips steps NumPy rejects
    shapes = [np.shape(twin(p)) for p in pool]
    steps = []
    for _ in range(rng.randrange(5, maxlen + 1)):
        t = rng.choice(['bin', 'bin', 'inp', 'inp', 'inp', 'set', 'set', 'row', 'copy', 'neg'])
        i = rng.randrange(4)
        if t in ('bin', 'inp'):
            o = rng.choice(['add', 'sub', 'mul', 'truediv'] if t == 'bin' else ['iadd', 'isub', 'imul', 'itruediv'])
            if t == 'bin' and rng.random() < 0.25: o = rng.choice(['eq', 'ne', 'gt', 'lt', 'ge', 'le'])
            st = {'t': t, 'o': o, 'i': i}
            if rng.random() < 0.6:
                st['j'] = rng.randrange(4) if rng.random() < 0.8 else i
            else:
                st['R'] = rng.choice([{'k': 'scalar', 'v': rng.choice(vals)}, {'k': 'arr1', 'v': fv(rng, n, vals)}, {'k': 'list', 'v': fv(rng, n, vals)}, {'k': 'sv', 'v': fv(rng, 1, vals)}])
            if t == 'bin': st['k'] = rng.randrange(4)
            steps.append(st)
        elif t == 'set':
            shape = shapes[i]
            ix = gen_index(rng, shape) if rng.random() < 0.8 else {'t': 'slice'}
            st = {'t': 'set', 'i': i, 'ix': ix}
            if rng.random() < 0.35: st['j'] = rng.randrange(4)
            else:
                st['R'] = rng.choice([{'k': 'scalar', 'v': rng.choice(vals)}, {'k': 'arr1', 'v': fv(rng, n, vals)}, {'k': 'list', 'v': fv(rng, n, vals)}])
            steps.append(st)
        elif t == 'row':
            steps.append({'t': 'row', 'i': i, 'r': rng.randrange(m), 'k': rng.randrange(4)})
        else:
            steps.append({'t': t, 'i': i, 'k': rng.randrange(4)})
        # shape bookkeeping for index generation only
        st = steps[-1]
        if st['t'] == 'row' and len(shapes[st['i']]) == 2: shapes[st['k']] = (n,)
        elif st['t'] in ('copy', 'neg'): shapes[st['k']] = shapes[st['i']]
        elif st['t'] == 'bin':
            sb = shapes[st['j']] if 'j' in st else np.shape(twin(st['R']))
            try: shapes[st['k']] = np.broadcast_shapes(shapes[st['i']], sb)
            except ValueError: pass
    return {'t': 'hist', 'pool': pool, 'steps': steps}

# bounded exhaustive enumeration ------------------------------------------------
ALPHA = [0., 1., -1., 0.5]


def enum_cases():
    """all vectors of size<=3 / arrays<=2x2 over ALPHA x every operator x operand kinds of D (same shape, scalar, row)."""
    ops = [('bin', o) for o in BIN] + [('inp', o) for o in INP]
    for n in (1, 2, 3):
        vecs = [list(v) for v in itertools.product(ALPHA, repeat=n)]
        for fam, o in ops:
            for L in vecs:
                for R in vecs:
                    for rk in ('sv', 'arr1', 'list'):
                        yield {'t': 'op', 'fam': fam, 'o': o, 'L': {'k': 'sv', 'v': L}, 'R': {'k': rk, 'v': R}}
                for s in ALPHA:
                    yield {'t': 'op', 'fam': fam, 'o': o, 'L': {'k': 'sv', 'v': L}, 'R': {'k': 'scalar', 'v': s}}
    for (m, n) in ((1, 1), (1, 2), (2, 1), (2, 2)):
        arrs = [[list(v[i * n:(i + 1) * n]) for i in range(m)] for v in itertools.product(ALPHA, repeat=m * n)]
        rows = [list(v) for v in itertools.product(ALPHA, repeat=n)]
        for fam, o in ops:
            for L in arrs:
                for s in ALPHA:
                    yield {'t': 'op', 'fam': fam, 'o': o, 'L': {'k': 'sa', 'v': L}, 'R': {'k': 'scalar', 'v': s}}
                for R in rows:
                    yield {'t': 'op', 'fam': fam, 'o': o, 'L': {'k': 'sa', 'v': L}, 'R': {'k': 'sv', 'v': R}}
                    yield {'t': 'op', 'fam': fam, 'o': o, 'L': {'k': 'sa', 'v': L}, 'R': {'k': 'sa', 'v': [R]}}
        if m * n <= 2:
            for fam, o in ops:
                for L in arrs:
                    for R in arrs:
                        yield {'t': 'op', 'fam': fam, 'o': o, 'L': {'k': 'sa', 'v': L}, 'R': {'k': 'sa', 'v': R}}
                        yield {'t': 'op', 'fam': fam, 'o': o, 'L': {'k': 'sa', 'v': L}, 'R': {'k': 'arr2', 'v': R}}
    # set/get on all vectors of size <=3 by every int index and every boolean mask
    for n in (1, 2, 3):
        for L in itertools.product(ALPHA, repeat=n):
            for i in range(n):
                yield {'t': 'get', 'L': {'k': 'sv', 'v': list(L)}, 'ix': {'t': 'int', 'i': i}}
                for s in ALPHA:
                    yield {'t': 'set', 'L': {'k': 'sv', 'v': list(L)}, 'ix': {'t': 'int', 'i': i}, 'V': {'k': 'scalar', 'v': s}}
            for mask in itertools.product([False, True], repeat=n):
                yield {'t': 'get', 'L': {'k': 'sv', 'v': list(L)}, 'ix': {'t': 'barr', 'v': list(mask)}}
                for s in ALPHA:
                    yield {'t': 'set', 'L': {'k': 'sv', 'v': list(L)}, 'ix': {'t': 'barr', 'v': list(mask)}, 'V': {'k': 'scalar', 'v': s}}
            for f in ('any', 'all', 'sum', 'mean', 'max', 'min'):
                for keep in (False, True):
                    yield {'t': 'red', 'L': {'k': 'sv', 'v': list(L)}, 'f': f, 'axis': None, 'keepdims': keep}


REGRESSION = [
    {'t': 'set', 'L': {'k': 'sv', 'v': [1.0, 2.0, 0.0, 4.5]}, 'ix': {'t': 'slice'}, 'V': {'k': 'list', 'v': [0.0, 1.0]}, 'must_reject': True},
]


def run(rec, rng, tier, shard, nshards):
    quick = tier == 'quick'
    if shard == 0:
        for case in REGRESSION: run_case(case, rec)
    n_rand = 25000 if quick else 250000
    n_hist = 2000 if quick else 25000
    maxlen = 30
    gens = [(gen_op, 0.42), (gen_get, 0.12), (gen_set, 0.2), (gen_reduce, 0.1), (gen_construct, 0.06), (gen_reject, 0.1)]
    names, weights = zip(*gens)
    for _ in range(n_rand):
        g = rng.choices(names, weights)[0]
        case = g(rng)
        if case is None: continue
        run_case(case, rec)
        if rec.cases % 997 == 0: rec.sample(case)
    for _ in range(n_hist):
        case = gen_history(rng, maxlen)
        run_case(case, rec)
        if rec.cases % 397 == 0: rec.sample({'t': 'hist', 'pool': case['pool'], 'steps': case['steps'][:6], 'n_steps': len(case['steps'])})
    # bounded exhaustive enumeration: every case in the thorough tier (split over the shards),
    # a stratified 1/20 sample in the quick tier
    stride = nshards * (20 if quick else 1)
    offset = shard + (rng.randrange(20) * nshards if quick else 0)
    n_enum = 0
    for idx, case in enumerate(enum_cases()):
        if idx % stride != offset % stride: continue
        run_case(case, rec); n_enum += 1
        rec.hit('enum')
    rec.notes['enumerated_cases_this_run'] = 'see reach_counters.enum'
    rec.notes['exhaustive_subspace'] = ('thorough tier: every case of the bounded enumeration is executed (shards partition the index space); '
                                        'quick tier: 1/20 stratified sample')
