"""C07 — pure-component and mixture enthalpy/entropy are thermodynamically consistent.

Monitor: the real Chemical.H/S/Cn functors (for each of the three reference-phase assignments) and the real mixture
models are evaluated on grids and random compositions; the oracle evaluates reference values, the wiring of the
heat-capacity integrals, finite-difference derivatives on well-conditioned models (database ones that pass a
conditioning probe, and synthetic polynomial heat capacities with exact integrals), the pressure term of the gas
entropy, the jumps at Tb and Tm, mole-weighted sums, extensivity and the ideal mixing term.
"""
import math
import numpy as np
import thermosteam as tmo
from vt.core import case_hash
from vt.common import thermo_of

PID = 'C07'
RULE = ('(A) 22 database chemicals x reference phase l/g/s x phases s/l/g x T grid 260-480 K x P in {5e4,1e5,1e6}: reference values, H/S differences vs the Cn model integrals, finite differences where '
        'the model integrates consistently (conditioning probe), gas pressure term, jumps at Tb/Tm; (B) synthetic chemicals: database chemical with random constant/linear/quadratic Cn per phase (exact integrals '
        'supplied) and random Tm, Tb with Tm<T_ref<Tb, Tm<Tb<T_ref, T_ref<Tm<Tb; (C) random mixtures of 2-6 chemicals: H, Cn mole-weighted and extensive, S - sum n_i s_i = c*sum n_i ln x_i, '
        'isothermal-isobaric mixing of two streams. non-trivial = a clause evaluated at a state away from the reference state / a mixture with >=2 components; distinct = hash of the case')
MIN_NONTRIVIAL = {'quick': 300, 'thorough': 5000}
ASSUMPTIONS = ['the symbolic clause of the quantifier (arbitrary Cn functions, arbitrary Tm/Tb/T/P) is replaced by evaluation on database and synthetic models (DESIGN section 6)',
               'database heat-capacity models whose own integral does not match their values (conditioning probe, relative error > 1e-6) are excluded from the finite-difference clauses only',
               'R is the constant the library itself uses (thermosteam.constants.R)']
DB = ('Water', 'Ethanol', 'Methanol', 'Propanol', 'Butanol', 'Hexane', 'Heptane', 'Octane', 'Benzene', 'Toluene', 'Acetone', 'EthylAcetate', 'AceticAcid', 'Glycerol', 'Octanol',
      'CO2', 'N2', 'O2', 'CH4', 'Propane', 'Ethylene', 'Glucose')
MIX = ('Water', 'Ethanol', 'Methanol', 'Octane', 'Acetone', 'Toluene')
R = 8.314462618


def required(tier):
    return ['reference-state', 'integral-wiring', 'finite-difference', 'gas-pressure', 'jump-Tb', 'jump-Tm', 'mixture-sum', 'extensive', 'mixing-term', 'mixing-never-lowers-S', 'synthetic', 'ref:l', 'ref:g', 'ref:s']


_cache = {}


def chemical(name, ref):
    k = (name, ref)
    if k not in _cache:
        try: _cache[k] = tmo.Chemical(name, phase_ref=ref, cache=False)
        except Exception as e: _cache[k] = e
    return _cache[k]


def well_conditioned(model, T, h=1e-3):
    """does the model's own integral agree with its values? (external-data sanity, not thermosteam logic)"""
    try:
        a = model.T_dependent_property_integral(T - h, T + h) / (2 * h)
        b = model.T_dependent_property_integral_over_T(T - h, T + h) / (2 * h)
        v = model(T)
        # also from the reference temperature (this is how the functors call it): additivity at the same step
        a2 = (model.T_dependent_property_integral(298.15, T + h) - model.T_dependent_property_integral(298.15, T - h)) / (2 * h)
        b2 = (model.T_dependent_property_integral_over_T(298.15, T + h) - model.T_dependent_property_integral_over_T(298.15, T - h)) / (2 * h)
        return all(abs(p - q) <= 1e-6 * abs(q) for p, q in ((a, v), (a2, v), (b, v / T), (b2, v / T)))
    except Exception:
        return False


def check_pure(c, rec, case, tag, synthetic=False):
    ref = c.phase_ref
    Tref, Pref = c.T_ref, c.P_ref
    rec.hit('ref:' + ref)
    # (a) reference state
    try:
        h0 = c.H(ref, Tref, Pref); s0 = c.S(ref, Tref, Pref)
        rec.check(h0 == c.H_ref and s0 == c.S0, 'reference-state', tag, f'{c.ID} ref {ref}: H(ref)={h0!r} (H_ref={c.H_ref}), S(ref)={s0!r} (S0={c.S0})')
    except Exception as e:
        rec.exception('reference-state', e, what=f'{c.ID} phase_ref={ref}: H/S at the reference state raised {type(e).__name__}: {str(e)[:120]}')
    Ts = case['Ts']; Ps = case['Ps']
    for ph in 'slg':
        Cn = getattr(c.Cn, ph)
        lim = Cn.T_limits.get(Cn.method) if Cn.method else None
        if not Cn.method: continue
        for T1, T2 in zip(Ts[:-1], Ts[1:]):
            P = Ps[0]
            try:
                dH = c.H(ph, T2, P) - c.H(ph, T1, P); dS = c.S(ph, T2, P) - c.S(ph, T1, P)
            except Exception as e:
                # a phase whose enthalpy needs Tm/Tb/Hvap/Hfus data the chemical lacks is a documented gap, not judged;
                # but database chemicals with complete data must evaluate
                if case.get('complete', {}).get(ph, False):
                    rec.exception('evaluate', e, what=f'{c.ID} phase_ref={ref}: H/S in phase {ph} raised {type(e).__name__}: {str(e)[:120]} although Cn, Tm, Tb, Hvap, Hfus are all available')
                else: rec.refuse(f'H/S undefined in a phase (incomplete data)')
                break
            try:
                iH = Cn.T_dependent_property_integral(T1, T2); iS = Cn.T_dependent_property_integral_over_T(T1, T2)
            except Exception:
                rec.refuse('model integral unavailable'); continue
            scale = max(abs(c.H(ph, T2, P)), abs(c.H(ph, T1, P)), abs(iH), 1.0)
            rec.check(abs(dH - iH) <= 1e-8 * scale, 'integral-wiring', f'H/{tag}', f'{c.ID} ref {ref} phase {ph}: H({T2})-H({T1}) = {dH!r} but integral of Cn = {iH!r}', residual=abs(dH - iH) / scale)
            sscale = max(abs(c.S(ph, T2, P)), abs(iS), 1.0)
            rec.check(abs(dS - iS) <= 1e-8 * sscale, 'integral-wiring', f'S/{tag}', f'{c.ID} ref {ref} phase {ph}: S({T2})-S({T1}) = {dS!r} but integral of Cn/T = {iS!r}', residual=abs(dS - iS) / sscale)
            rec.mark_nontrivial(case_hash((c.ID, ref, ph, T1, T2, tag)))
        # (c) finite differences
        for T in Ts[1:-1]:
            if not (synthetic or well_conditioned(Cn, T)): rec.refuse('ill-conditioned database model: finite-difference clause not judged'); continue
            try:
                h = 1e-3
                P = Ps[-1]
                dHdT = (c.H(ph, T + h, P) - c.H(ph, T - h, P)) / (2 * h); dSdT = (c.S(ph, T + h, P) - c.S(ph, T - h, P)) / (2 * h)
                cn = Cn(T)
            except Exception:
                continue
            rec.check(abs(dHdT - cn) <= 1e-5 * abs(cn) + 1e-7 * abs(c.H(ph, T, P)) / h * 1e-9, 'finite-difference', f'dH/dT/{tag}', f'{c.ID} ref {ref} phase {ph} T={T}: dH/dT={dHdT!r} Cn={cn!r}', residual=abs(dHdT - cn) / abs(cn))
            rec.check(abs(dSdT - cn / T) <= 1e-5 * abs(cn / T), 'finite-difference', f'dS/dT/{tag}', f'{c.ID} ref {ref} phase {ph} T={T}: dS/dT={dSdT!r} Cn/T={cn / T!r}', residual=abs(dSdT - cn / T) / abs(cn / T))
    # (d) gas entropy falls by R ln(P2/P1)
    try:
        T = Ts[len(Ts) // 2]
        for P1, P2 in zip(Ps[:-1], Ps[1:]):
            d = c.S('g', T, P2) - c.S('g', T, P1)
            exp = -tmo.constants.R * math.log(P2 / P1)
            rec.check(abs(d - exp) <= 1e-10 * abs(exp) + 1e-12 * abs(c.S('g', T, P1)), 'gas-pressure', tag, f'{c.ID} ref {ref}: S(g,{P2})-S(g,{P1}) = {d!r} expected -R ln(P2/P1) = {exp!r}', residual=abs(d - exp) / abs(exp))
            rec.check(abs(tmo.constants.R - R) < 1e-6 * R, 'gas-pressure', 'R-value', f'library R = {tmo.constants.R}')
            # enthalpy and liquid/solid entropy do not depend on pressure in the ideal package
            dl = c.H('g', T, P2) - c.H('g', T, P1)
            rec.check(dl == 0, 'gas-pressure', f'H-independent/{tag}', f'{c.ID}: ideal gas enthalpy changed with pressure by {dl}')
    except Exception as e:
        if case.get('complete', {}).get('g', False): rec.exception('gas-pressure', e, what=f'{c.ID} phase_ref={ref}: gas entropy raised {type(e).__name__}: {str(e)[:100]}')
    # (e) jumps
    Tb, Tm = c.Tb, c.Tm
    try:
        if Tb and c.Hvap.method:
            hv = c.Hvap(Tb); P = Pref
            dh = c.H('g', Tb, P) - c.H('l', Tb, P); ds = c.S('g', Tb, P) - c.S('l', Tb, P)
            sc = max(abs(c.H('g', Tb, P)), abs(c.H('l', Tb, P)), abs(hv))
            rec.check(abs(dh - hv) <= 1e-11 * sc, 'jump-Tb', f'H/{tag}', f'{c.ID} ref {ref}: H(g,Tb)-H(l,Tb) = {dh!r} but Hvap(Tb) = {hv!r}', residual=abs(dh - hv) / sc)
            ssc = max(abs(c.S('g', Tb, P)), abs(c.S('l', Tb, P)), abs(hv / Tb))
            rec.check(abs(ds - hv / Tb) <= 1e-11 * ssc, 'jump-Tb', f'S/{tag}', f'{c.ID} ref {ref}: S(g,Tb)-S(l,Tb) = {ds!r} but Hvap(Tb)/Tb = {hv / Tb!r}', residual=abs(ds - hv / Tb) / ssc)
    except Exception as e:
        if case.get('complete', {}).get('g', False) and case.get('complete', {}).get('l', False):
            rec.exception('jump-Tb', e, what=f'{c.ID} phase_ref={ref}: evaluating the jump at Tb raised {type(e).__name__}: {str(e)[:100]}')
    try:
        if Tm and c.Hfus is not None and c.Cn.s.method:
            hf = c.Hfus; P = Pref
            dh = c.H('l', Tm, P) - c.H('s', Tm, P); ds = c.S('l', Tm, P) - c.S('s', Tm, P)
            sc = max(abs(c.H('l', Tm, P)), abs(c.H('s', Tm, P)), abs(hf), 1.0)
            rec.check(abs(dh - hf) <= 1e-11 * sc, 'jump-Tm', f'H/{tag}', f'{c.ID} ref {ref}: H(l,Tm)-H(s,Tm) = {dh!r} but Hfus = {hf!r}', residual=abs(dh - hf) / sc)
            ssc = max(abs(c.S('l', Tm, P)), abs(c.S('s', Tm, P)), abs(hf / Tm), 1.0)
            rec.check(abs(ds - hf / Tm) <= 1e-11 * ssc, 'jump-Tm', f'S/{tag}', f'{c.ID} ref {ref}: S(l,Tm)-S(s,Tm) = {ds!r} but Hfus/Tm = {hf / Tm!r}', residual=abs(ds - hf / Tm) / ssc)
    except Exception as e:
        if case.get('complete', {}).get('s', False) and case.get('complete', {}).get('l', False):
            rec.exception('jump-Tm', e, what=f'{c.ID} phase_ref={ref}: evaluating the jump at Tm (Tm={Tm}, Hfus={c.Hfus}, Sfus={c.Sfus}) raised {type(e).__name__}: {str(e)[:100]}')


def completeness(c):
    """which phases have every datum their H/S needs (so that evaluation must not fail)"""
    has = {ph: bool(getattr(c.Cn, ph).method) for ph in 'slg'}
    out = {}
    ref = c.phase_ref
    tb = bool(c.Tb and c.Hvap.method); tm = bool(c.Tm and c.Hfus is not None)
    def inside(model, T):
        lim = model.T_limits.get(model.method) if model.method else None
        return bool(lim and T is not None and lim[0] - 1e-9 <= T <= lim[1] + 1e-9)
    # the integrals between T_ref, Tm, Tb must lie inside the model ranges (otherwise the library documents no value)
    for ph in 'slg':
        need = has[ph]
        path = {('l', 'l'): [], ('l', 'g'): ['vap'], ('l', 's'): ['fus'], ('g', 'g'): [], ('g', 'l'): ['vap'], ('g', 's'): ['vap', 'fus'],
                ('s', 's'): [], ('s', 'l'): ['fus'], ('s', 'g'): ['fus', 'vap']}[(ref, ph)]
        if 'vap' in path: need &= tb and has['l'] and has['g'] and inside(c.Cn.l, c.Tb) and inside(c.Cn.g, c.Tb) and inside(c.Cn.g, c.T_ref if ref == 'g' else c.Tb) and (ref != 'l' or inside(c.Cn.l, c.T_ref))
        if 'fus' in path: need &= tm and has['s'] and has['l'] and inside(c.Cn.l, c.Tm) and inside(c.Cn.s, c.Tm) and (ref != 'l' or inside(c.Cn.l, c.T_ref)) and (ref != 's' or inside(c.Cn.s, c.T_ref))
        if ref == 'g' and ph == 's': need &= inside(c.Cn.l, c.Tm) and inside(c.Cn.l, c.Tb)
        if ref == 's' and ph == 'g': need &= inside(c.Cn.l, c.Tm) and inside(c.Cn.l, c.Tb)
        out[ph] = bool(need)
    return out


def run_db(case, rec):
    c = chemical(case['name'], case['ref'])
    if isinstance(c, Exception):
        rec.exception('construct', c, what=f'Chemical({case["name"]}, phase_ref={case["ref"]}) raised {type(c).__name__}: {str(c)[:120]}'); return
    case = dict(case); case['complete'] = completeness(c)
    check_pure(c, rec, case, 'database')


def run_synth(case, rec):
    rec.hit('synthetic')
    try:
        c = tmo.Chemical(case['name'], phase_ref=case['ref'], cache=False)
        for ph, co in case['cn'].items():
            a, b, d = co
            getattr(c.Cn, ph).add_method(
                f=lambda T, a=a, b=b, d=d: a + b * T + d * T * T,
                f_int=lambda T1, T2, a=a, b=b, d=d: a * (T2 - T1) + b / 2 * (T2 ** 2 - T1 ** 2) + d / 3 * (T2 ** 3 - T1 ** 3),
                f_int_over_T=lambda T1, T2, a=a, b=b, d=d: a * math.log(T2 / T1) + b * (T2 - T1) + d / 2 * (T2 ** 2 - T1 ** 2),
                Tmin=50., Tmax=2000.)
        c.Hvap.add_method(f=lambda T, hv=case['hvap']: hv, Tmin=50., Tmax=2000.)
        c.Tm = case['Tm']; c.Tb = case['Tb']
        c.Sfus = c.Hfus / case['Tm']          # the entropy of fusion is an independent constant of the chemical: keep it consistent with the new Tm
        c.reset_free_energies()
    except Exception as e:
        rec.exception('synthetic', e, what=f'building a synthetic chemical raised {type(e).__name__}: {str(e)[:150]}'); return
    case = dict(case); case['complete'] = {'s': True, 'l': True, 'g': True}
    rec.check(c.Tm == case['Tm'] and c.Tb == case['Tb'] and c.phase_ref == case['ref'], 'synthetic', 'setup', f'synthetic chemical did not take Tm/Tb/phase_ref: {c.Tm},{c.Tb},{c.phase_ref}')
    check_pure(c, rec, case, 'synthetic')


def run_mix(case, rec):
    th = thermo_of(MIX)
    mix = th.mixture
    ids = th.chemicals.IDs
    n = np.array(case['n'], float)
    ph, T, P = case['phase'], case['T'], case['P']
    chems = list(th.chemicals)
    try:
        Hm = mix.H(ph, n, T, P); Cm = mix.Cn(ph, n, T); Sm = mix.S(ph, n, T, P)
        Hp = sum(n[i] * chems[i].H(ph, T, P) for i in range(len(n)) if n[i]); Cp = sum(n[i] * chems[i].Cn(ph, T) for i in range(len(n)) if n[i])
        Sp = sum(n[i] * chems[i].S(ph, T, P) for i in range(len(n)) if n[i])
    except Exception as e:
        rec.exception('mixture-sum', e, what=f'mixture H/Cn/S raised {type(e).__name__}: {str(e)[:120]}'); return
    rec.check(abs(Hm - Hp) <= 1e-12 * max(abs(Hm), abs(Hp), 1), 'mixture-sum', 'H', f'mixture H {Hm!r} != sum n_i H_i {Hp!r}', residual=abs(Hm - Hp) / max(abs(Hp), 1))
    rec.check(abs(Cm - Cp) <= 1e-12 * abs(Cp), 'mixture-sum', 'Cn', f'mixture Cn {Cm!r} != sum n_i Cn_i {Cp!r}', residual=abs(Cm - Cp) / abs(Cp))
    k = case['k']
    try:
        rec.check(abs(mix.H(ph, k * n, T, P) - k * Hm) <= 1e-11 * abs(k * Hm) + 1e-9 and abs(mix.Cn(ph, k * n, T) - k * Cm) <= 1e-11 * abs(k * Cm), 'extensive', 'H-Cn', f'H or Cn not extensive for k={k}')
        rec.check(abs(mix.S(ph, k * n, T, P) - k * Sm) <= 1e-11 * abs(k * Sm) + 1e-9, 'extensive', 'S', f'S(k n) = {mix.S(ph, k * n, T, P)!r} != k S(n) = {k * Sm!r}')
    except Exception as e:
        rec.exception('extensive', e, what=f'scaled mixture raised {type(e).__name__}: {e}')
    x = n[n > 0] / n.sum()
    nlnx = float((n[n > 0] * np.log(x)).sum())
    if len(x) >= 2 and abs(nlnx) > 1e-6:
        coeff = (Sm - Sp) / nlnx
        Rl = tmo.constants.R
        if abs(coeff + Rl) <= 1e-9 * Rl:
            rec.ok('mixing-term', abs(coeff + Rl) / Rl)
        elif abs(coeff - 1.0) <= 1e-9:
            rec.violation('C07/mixing-term/coefficient=+1', f'mixture S - sum n_i s_i = c * sum n_i ln x_i with c = {coeff!r}; the ideal mixing term requires c = -R = {-Rl} (the model adds +sum n_i ln x_i: no R, opposite sign)')
        else:
            rec.violation('C07/mixing-term/coefficient=other', f'mixture S - sum n_i s_i = c * sum n_i ln x_i with c = {coeff!r}; expected -R = {-Rl}')
        rec.mark_nontrivial(case_hash(case))
    # isothermal-isobaric mixing of two streams never lowers entropy
    a = tmo.Stream(None, phase=ph, T=T, P=P, thermo=th); b = tmo.Stream(None, phase=ph, T=T, P=P, thermo=th)
    for i, v in zip(ids, case['n']):
        if v: a.imol[i] = v
    for i, v in zip(ids, case['m']):
        if v: b.imol[i] = v
    try:
        Sa, Sb = a.S, b.S
        cmb = tmo.Stream(None, phase=ph, T=T, P=P, thermo=th)
        cmb.mix_from([a, b], energy_balance=False)
        Sc = cmb.S
    except Exception as e:
        rec.exception('mixing-never-lowers-S', e, what=f'stream entropies raised {type(e).__name__}: {e}'); return
    drop = (Sa + Sb) - Sc
    tol = 1e-9 * max(abs(Sa), abs(Sb), abs(Sc), 1.0)
    if drop <= tol:
        rec.ok('mixing-never-lowers-S')
    else:
        # classify: a drop equal to the mis-signed, R-less mixing term is the same mechanism as coefficient=+1
        na = np.array(case['n'], float); nb = np.array(case['m'], float); nc = na + nb
        def t(v):
            v = v[v > 0]; return float((v * np.log(v / v.sum())).sum()) if len(v) else 0.0
        # kmol/hr flows: stream S = 1000 * S(mol)?  use the ratio test instead of absolute units
        term = t(nc) - t(na) - t(nb)      # <= 0
        ratio = drop / (-term) if term else float('inf')
        units = Sc / mix.S(ph, nc, T, P) if mix.S(ph, nc, T, P) else 1.0
        if abs(ratio / units - 1.0) <= 1e-6:
            rec.violation('C07/mixing-never-lowers-S/coefficient=+1', f'mixing two streams at equal T and P lowered total entropy by {drop!r} = exactly the mis-signed, R-less mixing term (same mechanism as mixing-term/coefficient=+1)')
        else:
            rec.violation('C07/mixing-never-lowers-S/other', f'mixing two streams at equal T={T}, P={P} lowered total entropy: {Sa + Sb!r} -> {Sc!r}')
    rec.mark_nontrivial(case_hash((case['n'], case['m'], T, P, ph)))


def gen_cases(rng, tier):
    cases = []
    names = list(DB)
    for name in names:
        for ref in 'lgs':
            Ts = sorted(rng.uniform(260, 480) for _ in range(4))
            cases.append({'t': 'db', 'name': name, 'ref': ref, 'Ts': [round(T, 3) for T in Ts], 'Ps': [5e4, 1e5, 1e6]})
    nsyn = 100 if tier == 'quick' else 600
    for _ in range(nsyn):
        order = rng.choice(['Tm<Tref<Tb', 'Tm<Tb<Tref', 'Tref<Tm<Tb'])
        if order == 'Tm<Tref<Tb': Tm, Tb = rng.uniform(150, 290), rng.uniform(310, 500)
        elif order == 'Tm<Tb<Tref': Tm, Tb = rng.uniform(100, 180), rng.uniform(190, 290)
        else: Tm, Tb = rng.uniform(305, 380), rng.uniform(390, 600)
        def co():
            k = rng.choice(['const', 'lin', 'quad'])
            return [round(rng.uniform(20, 200), 3), 0.0 if k == 'const' else round(rng.uniform(0, 0.3), 4), 0.0 if k != 'quad' else round(rng.uniform(0, 2e-4), 7)]
        Ts = sorted(rng.uniform(260, 480) for _ in range(4))
        cases.append({'t': 'syn', 'name': rng.choice(['Ethanol', 'Water', 'Octane', 'Acetone', 'Benzene']), 'ref': rng.choice('lgs'), 'order': order, 'Tm': round(Tm, 3), 'Tb': round(Tb, 3),
                      'cn': {'s': co(), 'l': co(), 'g': co()}, 'hvap': round(rng.uniform(1e4, 6e4), 1), 'Ts': [round(T, 3) for T in Ts], 'Ps': [5e4, 1e5, 1e6]})
    nmix = 1000 if tier == 'quick' else 10000
    for _ in range(nmix):
        def comp(): return [0.0 if rng.random() < 0.35 else round(10 ** rng.uniform(-2, 2), 4) for _ in MIX]
        n = comp()
        if sum(1 for v in n if v) < 1: n[0] = 1.0
        cases.append({'t': 'mix', 'n': n, 'm': comp(), 'phase': rng.choice('lg'), 'T': round(rng.uniform(280, 400), 2), 'P': rng.choice([5e4, 101325., 5e5]), 'k': rng.choice([0.5, 2.0, 1e-3, 1e3])})
    return cases


def run_case(case, rec):
    rec.begin_case(case)
    try:
        {'db': run_db, 'syn': run_synth, 'mix': run_mix}[case['t']](case, rec)
    except Exception as e:
        rec.exception('harness', e, what=f'harness error in {case["t"]}: {type(e).__name__}: {e}')


def replay(case, rec):
    run_case(case, rec)


def run(rec, rng, tier, shard, nshards):
    cases = gen_cases(rng, tier)
    for i, case in enumerate(cases):
        if case['t'] == 'db' and i % nshards != shard: continue      # the database grid is partitioned over the shards
        run_case(case, rec)
        if i % 97 == 0: rec.sample(case)
