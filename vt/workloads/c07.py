"""C07 — pure-component and mixture enthalpy/entropy are thermodynamically consistent.

Monitor: the real Chemical.H/S/Cn functors (for each of the three reference-phase assignments) and the real mixture
models are evaluated on grids and random compositions; the oracle evaluates reference values, the wiring of the
heat-capacity integrals, finite-difference derivatives on well-conditioned models (database ones that pass a
conditioning probe, and synthetic polynomial heat capacities with exact integrals), the pressure term of the gas
entropy, the jumps at Tb and Tm, mole-weighted sums, extensivity and the ideal mixing term.
"""
import math
import numpy as np
import thermosteam as tmo
from vt.core import case_hash, exc_key
from vt.common import thermo_of

PID = 'C07'
RULE = ('(A) 22 database chemicals x reference phase l/g/s x phases s/l/g x T grid 260-480 K x P in {5e4,1e5,1e6}: reference values, H/S differences vs the Cn model integrals, finite differences where '
        'the model integrates consistently (conditioning probe), gas pressure term, jumps at Tb/Tm; (B) synthetic chemicals: database chemical with random constant/linear/quadratic Cn per phase (exact integrals '
        'supplied) and random Tm, Tb with Tm<T_ref<Tb, Tm<Tb<T_ref, T_ref<Tm<Tb; (C) random mixtures of 2-6 chemicals: H, Cn mole-weighted and extensive, S - sum n_i s_i = c*sum n_i ln x_i, '
        'isothermal-isobaric mixing of two streams. Added: (D) phase-locked chemicals (at_state / phase= constructor) for every lock phase: reference state, integral wiring, finite differences, gas pressure term, '
        'equality with the unlocked chemical of the same reference phase, and a mixture with a solid-locked member; (E) phase_ref setter cycles and Chemical.copy re-checked with all pure-component clauses; '
        'synthetic orders Tb<Tm (all positions relative to T_ref) and T_ref == Tm / Tb; (F) ~370 further database chemicals (Poling heat-capacity index) at T grids spanning each phase model range '
        '(both ends) and P in 1..1e8 Pa; (G) mixtures: solid phase, gas pressure term of the mixture, single-component and equal-composition / empty / three-stream mixing, xH/xS/xCn and MultiStream.H/S/C '
        'against the single-phase sums, Stream.H/S/C/Cn against the mole-weighted sums, include_excess_energies=True against the pure excess functors. '
        'Oracle hardening: the reference state is the literal (298.15 K, 101325 Pa, H = 0) and the class constants T_ref/P_ref/H_ref and R (a CODATA value) are compared with literals; the wiring bound is 1e-11 of the largest term plus the '
        'additivity defect of the external Cn model measured from the functors\' own lower limits; a pinned table says which clauses must be evaluated for the 22 database chemicals (per reference phase; also after the setter, for the copy, '
        'for synthetic chemicals and after a history) and which data they have - a clause skipped by a probe, a branch on library state or a tolerated exception is a violation (clause judged) and counted in judged:<clause>:<tag>; '
        'an exception in the finite-difference block, in an operation of a history or in Chemical(cas, phase_ref=...) of the heat-capacity index is a violation unless it is the documented refusal (LookupError with the default '
        'reference phase too; at_state on a chemical locked at another phase). non-trivial = a clause evaluated at a state away from the reference state / a mixture with >=2 components; distinct = hash of the case')
MIN_NONTRIVIAL = {'quick': 300, 'thorough': 5000}
ASSUMPTIONS = ['the symbolic clause of the quantifier (arbitrary Cn functions, arbitrary Tm/Tb/T/P) is replaced by evaluation on database and synthetic models (DESIGN section 6)',
               'database heat-capacity models whose own integral does not match their values (conditioning probe, relative error > 1e-6) are excluded from the finite-difference clauses only',
               'R is the constant the library itself uses (thermosteam.constants.R), which must be one of the CODATA 2010/2014/2018 values',
               'which clauses are evaluable for a database chemical (model ranges against Tm, Tb, T_ref; conditioning of the external models) was established once on the pinned data package over 300 random grids per chemical and reference phase '
               'and is pinned as a lower bound (DB_COMPLETE, db_expected, HIST_JUDGED); the liquid finite differences and the liquid wiring of acetic acid (tabulated model) depend on the grid and are not pinned',
               'the wiring identity tolerates the additivity defect of the external heat-capacity model (|int(T0,T2)-int(T0,T1)-int(T1,T2)| for T0 in T_ref, Tm, Tb; at most 1e-10 relative, otherwise not judged) on top of 1e-11 of the largest term']
DB = ('Water', 'Ethanol', 'Methanol', 'Propanol', 'Butanol', 'Hexane', 'Heptane', 'Octane', 'Benzene', 'Toluene', 'Acetone', 'EthylAcetate', 'AceticAcid', 'Glycerol', 'Octanol',
      'CO2', 'N2', 'O2', 'CH4', 'Propane', 'Ethylene', 'Glucose')
MIX = ('Water', 'Ethanol', 'Methanol', 'Octane', 'Acetone', 'Toluene')
R = 8.314462618
R_CODATA = (8.3144621, 8.3144598, 8.314462618)          # CODATA 2010, 2014, 2018 (the library's constant is one of them: pinned exactly, not only to 1e-6)
# the reference state of the property, as literals (NOT read from the class under test: Chemical.T_ref / P_ref / H_ref are compared with these)
TREF, PREF, HREF = 298.15, 101325.0, 0.0


def required(tier):
    return (['reference-state', 'integral-wiring', 'finite-difference', 'gas-pressure', 'jump-Tb', 'jump-Tm', 'mixture-sum', 'extensive', 'mixing-term', 'mixing-never-lowers-S', 'synthetic', 'ref:l', 'ref:g', 'ref:s',
            'locked', 'locked:s', 'locked:l', 'locked:g', 'locked-equals-unlocked', 'mix-with-locked', 'setter-cycle', 'copy', 'order:Tb<Tm', 'order:Tref==T', 'wide-db', 'wide:T-limit-ends',
            'multi-phase-sum', 'stream-sum', 'excess', 'mix:solid', 'mix:gas-pressure', 'mix:single-component', 'mix:equal-composition', 'mix:three-streams', 'mix:empty-stream',
            'judged', 'history-op', 'construct'] + [f'judged:{cl}:{tag}' for cl in ('integral-wiring', 'finite-difference', 'gas-pressure', 'jump-Tb', 'jump-Tm') for tag in ('database', 'synthetic', 'setter', 'copy', 'history', 'database-wide')]
            + ['judged:integral-wiring:locked-' + ph for ph in 'slg'] + [
            'history', 'hist:same-objects-rebuilt', 'hist:permuted', 'hist:replaced-object', 'hist:live-package', 'hist:flag-flipped', 'hist:pure-after-history', 'hist:src:fresh', 'hist:src:copy', 'hist:src:ids-cache']
            + ['hist:op:' + o for o in HIST_REBUILD_OPS + HIST_INPLACE_OPS] + ['hist:form:' + f for f in HIST_OBJECT_FORMS + HIST_ID_FORMS])


_cache = {}


def chemical(name, ref):
    k = (name, ref)
    if k not in _cache:
        try: _cache[k] = tmo.Chemical(name, phase_ref=ref, cache=False)
        except Exception as e: _cache[k] = e
    return _cache[k]


def well_conditioned(model, T, h=1e-3, origins=()):
    """does the model's own integral agree with its values? (external-data sanity, not thermosteam logic)
    origins: further lower limits from which the library's functors integrate (T_ref, Tm, Tb of the chemical): the external integral switches formula by segment,
    so additivity is probed from the limits actually used"""
    try:
        a = model.T_dependent_property_integral(T - h, T + h) / (2 * h)
        b = model.T_dependent_property_integral_over_T(T - h, T + h) / (2 * h)
        v = model(T)
        for T0_ in origins:
            if T0_ is None or not (T0_ == T0_) or T0_ <= 0: continue
            a3 = (model.T_dependent_property_integral(T0_, T + h) - model.T_dependent_property_integral(T0_, T - h)) / (2 * h)
            b3 = (model.T_dependent_property_integral_over_T(T0_, T + h) - model.T_dependent_property_integral_over_T(T0_, T - h)) / (2 * h)
            if not (abs(a3 - v) <= 1e-6 * abs(v) and abs(b3 - v / T) <= 1e-6 * abs(v / T)): return False
        # also from the reference temperature (this is how the functors call it): additivity at the same step
        a2 = (model.T_dependent_property_integral(298.15, T + h) - model.T_dependent_property_integral(298.15, T - h)) / (2 * h)
        b2 = (model.T_dependent_property_integral_over_T(298.15, T + h) - model.T_dependent_property_integral_over_T(298.15, T - h)) / (2 * h)
        return all(abs(p - q) <= 1e-6 * abs(q) for p, q in ((a, v), (a2, v), (b, v / T), (b2, v / T)))
    except Exception:
        return False


def additive(model, T1, T2, origins):
    """does the external heat-capacity model integrate additively from the lower limits the library's functors use (T_ref, Tm, Tb)?
    (tabulated / piecewise models of the data package integrate by quadrature and are additive only to ~1e-7; the wiring identity then says nothing about thermosteam)
    returns False when it does not (relative defect > 1e-10), otherwise the tuple (dH, dS) of the largest absolute additivity defects measured from those limits:
    H(T2)-H(T1) of the library is int(T0,T2)-int(T0,T1) for one of these T0, so it may differ from int(T1,T2) by exactly that much (and no more, apart from rounding)"""
    try:
        iH = model.T_dependent_property_integral(T1, T2); iS = model.T_dependent_property_integral_over_T(T1, T2)
        dH = dS = 0.0
        for T0_ in origins:
            if T0_ is None or not (T0_ == T0_) or T0_ <= 0: continue
            h2 = model.T_dependent_property_integral(T0_, T2); s2 = model.T_dependent_property_integral_over_T(T0_, T2)
            aH = h2 - model.T_dependent_property_integral(T0_, T1); aS = s2 - model.T_dependent_property_integral_over_T(T0_, T1)
            if not (abs(aH - iH) <= 1e-10 * max(abs(iH), abs(h2), 1.0) and abs(aS - iS) <= 1e-10 * max(abs(iS), abs(s2), 1.0)): return False
            dH = max(dH, abs(aH - iH)); dS = max(dS, abs(aS - iS))
        return (dH, dS)
    except Exception:
        return False


def check_constants(c, rec):
    """the reference state the property speaks of is (298.15 K, 101325 Pa) with H = 0: the class constants of the code under test are compared with literals (every other clause
    evaluates the functors at the literals, so a changed constant cannot move both sides)"""
    rec.check(c.H_ref == HREF and c.T_ref == TREF and c.P_ref == PREF, 'reference-state', 'constants',
              f'{type(c).__name__}.H_ref, T_ref, P_ref = {c.H_ref!r}, {c.T_ref!r}, {c.P_ref!r}; the reference state is H = {HREF} at {TREF} K, {PREF} Pa')


def check_pure(c, rec, case, tag, synthetic=False):
    """returns what was judged: {'wiring': phases, 'fd': phases, 'gas-pressure': n, 'jump-Tb': n, 'jump-Tm': n} (compared with the pinned expectation by the callers that have one)"""
    ref = c.phase_ref
    Tref, Pref = TREF, PREF
    judged = {'wiring': set(), 'fd': set(), 'gas-pressure': 0, 'jump-Tb': 0, 'jump-Tm': 0}
    complete = case.get('complete', {})
    rec.hit('ref:' + ref)
    check_constants(c, rec)
    # (a) reference state
    try:
        h0 = c.H(ref, Tref, Pref); s0 = c.S(ref, Tref, Pref)
        rec.check(h0 == HREF and s0 == c.S0, 'reference-state', tag, f'{c.ID} ref {ref}: H(ref)={h0!r} (must be {HREF}), S(ref)={s0!r} (S0={c.S0})')
    except Exception as e:
        rec.exception('reference-state', e, what=f'{c.ID} phase_ref={ref}: H/S at the reference state raised {type(e).__name__}: {str(e)[:120]}')
    Ts = case['Ts']; Ps = case['Ps']
    for ph in 'slg':
        Cn = getattr(c.Cn, ph)
        lim = Cn.T_limits.get(Cn.method) if Cn.method else None
        if not Cn.method:
            rec.refuse(f'no heat-capacity model in a phase ({tag}): phase not judged'); continue
        Ts = (case.get('Ts_by_phase') or {}).get(ph, case['Ts'])
        for T1, T2 in zip(Ts[:-1], Ts[1:]):
            P = Ps[0]
            try:
                dH = c.H(ph, T2, P) - c.H(ph, T1, P); dS = c.S(ph, T2, P) - c.S(ph, T1, P)
            except Exception as e:
                # a phase whose enthalpy needs Tm/Tb/Hvap/Hfus data the chemical lacks is a documented gap, not judged;
                # but database chemicals with complete data must evaluate
                if complete.get(ph, False):
                    rec.exception('evaluate', e, what=f'{c.ID} phase_ref={ref}: H/S in phase {ph} raised {type(e).__name__}: {str(e)[:120]} although Cn, Tm, Tb, Hvap, Hfus are all available')
                else: rec.refuse(f'H/S undefined in a phase (incomplete data)')
                break
            try:
                iH = Cn.T_dependent_property_integral(T1, T2); iS = Cn.T_dependent_property_integral_over_T(T1, T2)
            except Exception:
                rec.refuse('model integral unavailable'); continue
            # the external model must itself integrate additively from the limits the functors use (T_ref, Tm, Tb); piecewise / tabulated
            # models of the data package sometimes do not, and then the identity says nothing about thermosteam
            defect = (0.0, 0.0) if synthetic else additive(Cn, T1, T2, (Tref, c.Tm, c.Tb))
            if defect is False:
                rec.refuse('external heat-capacity model does not integrate additively over its range: wiring clause not judged'); continue
            # bound: rounding of the terms summed (1e-11 of the largest) + the additivity defect of the external model measured from the functors' own lower limits
            scale = max(abs(c.H(ph, T2, P)), abs(c.H(ph, T1, P)), abs(iH), 1.0)
            rec.check(abs(dH - iH) <= 1e-11 * scale + 1.5 * defect[0], 'integral-wiring', f'H/{tag}', f'{c.ID} ref {ref} phase {ph}: H({T2})-H({T1}) = {dH!r} but integral of Cn = {iH!r}', residual=max(abs(dH - iH) - 1.5 * defect[0], 0.0) / scale)
            sscale = max(abs(c.S(ph, T2, P)), abs(iS), 1.0)
            rec.check(abs(dS - iS) <= 1e-11 * sscale + 1.5 * defect[1], 'integral-wiring', f'S/{tag}', f'{c.ID} ref {ref} phase {ph}: S({T2})-S({T1}) = {dS!r} but integral of Cn/T = {iS!r}', residual=max(abs(dS - iS) - 1.5 * defect[1], 0.0) / sscale)
            judged['wiring'].add(ph)
            rec.mark_nontrivial(case_hash((c.ID, ref, ph, T1, T2, tag)))
        # (c) finite differences
        for T in Ts[1:-1]:
            if not (synthetic or well_conditioned(Cn, T, origins=(Tref, getattr(c, 'Tm', None), getattr(c, 'Tb', None)))): rec.refuse('ill-conditioned database model: finite-difference clause not judged'); continue
            try:
                h = 1e-3
                P = Ps[-1]
                dHdT = (c.H(ph, T + h, P) - c.H(ph, T - h, P)) / (2 * h); dSdT = (c.S(ph, T + h, P) - c.S(ph, T - h, P)) / (2 * h)
                cn = Cn(T)
            except Exception as e:
                # the heat-capacity model itself evaluates and integrates at T-h, T+h (conditioning probe above): a raise comes from the functors
                if complete.get(ph, False):
                    rec.exception('finite-difference', e, what=f'{c.ID} phase_ref={ref}: H/S/Cn in phase {ph} at T={T} +- {h} raised {type(e).__name__}: {str(e)[:120]} although Cn, Tm, Tb, Hvap, Hfus are all available')
                else: rec.refuse('finite-difference: H/S undefined in a phase (incomplete data)')
                continue
            rec.check(abs(dHdT - cn) <= 1e-5 * abs(cn) + 1e-7 * abs(c.H(ph, T, P)) / h * 1e-9, 'finite-difference', f'dH/dT/{tag}', f'{c.ID} ref {ref} phase {ph} T={T}: dH/dT={dHdT!r} Cn={cn!r}', residual=abs(dHdT - cn) / abs(cn))
            rec.check(abs(dSdT - cn / T) <= 1e-5 * abs(cn / T), 'finite-difference', f'dS/dT/{tag}', f'{c.ID} ref {ref} phase {ph} T={T}: dS/dT={dSdT!r} Cn/T={cn / T!r}', residual=abs(dSdT - cn / T) / abs(cn / T))
            judged['fd'].add(ph)
    # (d) gas entropy falls by R ln(P2/P1)
    try:
        Ts = (case.get('Ts_by_phase') or {}).get('g', case['Ts'])
        T = Ts[len(Ts) // 2]
        for P1, P2 in zip(Ps[:-1], Ps[1:]):
            d = c.S('g', T, P2) - c.S('g', T, P1)
            exp = -tmo.constants.R * math.log(P2 / P1)
            rec.check(abs(d - exp) <= 1e-10 * abs(exp) + 1e-12 * abs(c.S('g', T, P1)), 'gas-pressure', tag, f'{c.ID} ref {ref}: S(g,{P2})-S(g,{P1}) = {d!r} expected -R ln(P2/P1) = {exp!r}', residual=abs(d - exp) / max(abs(exp), 1e-300))
            rec.check(abs(tmo.constants.R - R) < 1e-6 * R, 'gas-pressure', 'R-value', f'library R = {tmo.constants.R}')
            rec.check(tmo.constants.R in R_CODATA, 'gas-pressure', 'R-value-codata', f'library R = {tmo.constants.R!r} is none of the published CODATA values {R_CODATA}')
            # enthalpy and liquid/solid entropy do not depend on pressure in the ideal package
            dl = c.H('g', T, P2) - c.H('g', T, P1)
            rec.check(dl == 0, 'gas-pressure', f'H-independent/{tag}', f'{c.ID}: ideal gas enthalpy changed with pressure by {dl}')
            judged['gas-pressure'] += 1
    except Exception as e:
        if complete.get('g', False): rec.exception('gas-pressure', e, what=f'{c.ID} phase_ref={ref}: gas entropy raised {type(e).__name__}: {str(e)[:100]}')
        else: rec.refuse('gas-pressure: gas entropy undefined (incomplete data)')
    # (e) jumps
    Tb, Tm = c.Tb, c.Tm
    try:
        if Tb and c.Hvap.method:
            hv = c.Hvap(Tb); P = Pref
            dh = c.H('g', Tb, P) - c.H('l', Tb, P); ds = c.S('g', Tb, P) - c.S('l', Tb, P)
            sc = max(abs(c.H('g', Tb, P)), abs(c.H('l', Tb, P)), abs(hv))
            rec.check(abs(dh - hv) <= 1e-11 * sc, 'jump-Tb', f'H/{tag}', f'{c.ID} ref {ref}: H(g,Tb)-H(l,Tb) = {dh!r} but Hvap(Tb) = {hv!r}', residual=abs(dh - hv) / sc)
            ssc = max(abs(c.S('g', Tb, P)), abs(c.S('l', Tb, P)), abs(hv / Tb))
            rec.check(abs(ds - hv / Tb) <= 1e-11 * ssc, 'jump-Tb', f'S/{tag}', f'{c.ID} ref {ref}: S(g,Tb)-S(l,Tb) = {ds!r} but Hvap(Tb)/Tb = {hv / Tb!r}', residual=abs(ds - hv / Tb) / ssc)
            judged['jump-Tb'] += 1
        else: rec.refuse(f'jump at Tb: no Tb or no Hvap model ({tag}): not judged')
    except Exception as e:
        if complete.get('g', False) and complete.get('l', False):
            rec.exception('jump-Tb', e, what=f'{c.ID} phase_ref={ref}: evaluating the jump at Tb raised {type(e).__name__}: {str(e)[:100]}')
        else: rec.refuse('jump at Tb: H/S undefined at Tb in the liquid or gas phase (incomplete data)')
    try:
        if Tm and c.Hfus is not None and c.Cn.s.method:
            hf = c.Hfus; P = Pref
            dh = c.H('l', Tm, P) - c.H('s', Tm, P); ds = c.S('l', Tm, P) - c.S('s', Tm, P)
            sc = max(abs(c.H('l', Tm, P)), abs(c.H('s', Tm, P)), abs(hf), 1.0)
            rec.check(abs(dh - hf) <= 1e-11 * sc, 'jump-Tm', f'H/{tag}', f'{c.ID} ref {ref}: H(l,Tm)-H(s,Tm) = {dh!r} but Hfus = {hf!r}', residual=abs(dh - hf) / sc)
            ssc = max(abs(c.S('l', Tm, P)), abs(c.S('s', Tm, P)), abs(hf / Tm), 1.0)
            rec.check(abs(ds - hf / Tm) <= 1e-11 * ssc, 'jump-Tm', f'S/{tag}', f'{c.ID} ref {ref}: S(l,Tm)-S(s,Tm) = {ds!r} but Hfus/Tm = {hf / Tm!r}', residual=abs(ds - hf / Tm) / ssc)
            judged['jump-Tm'] += 1
        else: rec.refuse(f'jump at Tm: no Tm, Hfus or solid heat-capacity model ({tag}): not judged')
    except Exception as e:
        if complete.get('s', False) and complete.get('l', False):
            rec.exception('jump-Tm', e, what=f'{c.ID} phase_ref={ref}: evaluating the jump at Tm (Tm={Tm}, Hfus={c.Hfus}, Sfus={c.Sfus}) raised {type(e).__name__}: {str(e)[:100]}')
        else: rec.refuse('jump at Tm: H/S undefined at Tm in the solid or liquid phase (incomplete data)')
    return judged


def completeness(c):
    """which phases have every datum their H/S needs (so that evaluation must not fail)"""
    has = {ph: bool(getattr(c.Cn, ph).method) for ph in 'slg'}
    out = {}
    ref = c.phase_ref
    tb = bool(c.Tb and c.Hvap.method); tm = bool(c.Tm and c.Hfus is not None)
    def inside(model, T):
        lim = model.T_limits.get(model.method) if model.method else None
        return bool(lim and T is not None and lim[0] - 1e-9 <= T <= lim[1] + 1e-9)
    # the integrals between T_ref, Tm, Tb must lie inside the model ranges (otherwise the library documents no value)
    for ph in 'slg':
        need = has[ph]
        path = {('l', 'l'): [], ('l', 'g'): ['vap'], ('l', 's'): ['fus'], ('g', 'g'): [], ('g', 'l'): ['vap'], ('g', 's'): ['vap', 'fus'],
                ('s', 's'): [], ('s', 'l'): ['fus'], ('s', 'g'): ['fus', 'vap']}[(ref, ph)]
        if 'vap' in path: need &= tb and has['l'] and has['g'] and inside(c.Cn.l, c.Tb) and inside(c.Cn.g, c.Tb) and inside(c.Cn.g, c.T_ref if ref == 'g' else c.Tb) and (ref != 'l' or inside(c.Cn.l, c.T_ref))
        if 'fus' in path: need &= tm and has['s'] and has['l'] and inside(c.Cn.l, c.Tm) and inside(c.Cn.s, c.Tm) and (ref != 'l' or inside(c.Cn.l, c.T_ref)) and (ref != 's' or inside(c.Cn.s, c.T_ref))
        if ref == 'g' and ph == 's': need &= inside(c.Cn.l, c.Tm) and inside(c.Cn.l, c.Tb)
        if ref == 's' and ph == 'g': need &= inside(c.Cn.l, c.Tm) and inside(c.Cn.l, c.Tb)
        out[ph] = bool(need)
    return out


# ---- pinned expectations (literals: what is judged must not be decided by the state of the library under test alone) --------------------------------------------
# every one of the 22 database chemicals has a heat-capacity model in each of the three phases, Tm, Tb, Hfus and a Hvap model (observed on the pinned data package; a chemical
# that loses one of them would silently drop its solid / jump clauses). Phases in which the completeness rule holds, per reference phase (l, g, s):
DB_COMPLETE = {'Water': ('slg', 'slg', 'slg'), 'Ethanol': ('slg', 'slg', 'slg'), 'Methanol': ('lg', 'lg', 's'), 'Propanol': ('lg', 'lg', 's'), 'Butanol': ('lg', 'lg', 's'), 'Hexane': ('slg', 'slg', 'slg'),
               'Heptane': ('lg', 'lg', 's'), 'Octane': ('lg', 'lg', 's'), 'Benzene': ('lg', 'lg', 's'), 'Toluene': ('slg', 'slg', 'slg'), 'Acetone': ('lg', 'lg', 's'), 'EthylAcetate': ('l', 'g', 's'),
               'AceticAcid': ('l', 'g', 's'), 'Glycerol': ('l', 'g', 's'), 'Octanol': ('lg', 'lg', 's'), 'CO2': ('l', 'g', 'sl'), 'N2': ('l', 'lg', 's'), 'O2': ('l', 'lg', 's'), 'CH4': ('l', 'slg', 'slg'),
               'Propane': ('lg', 'lg', 's'), 'Ethylene': ('l', 'slg', 'slg'), 'Glucose': ('sl', 'g', 'sl')}
ALL_JUDGED = {'wiring': 'slg', 'fd': 'slg', 'gas-pressure': 1, 'jump-Tb': 1, 'jump-Tm': 1}
HIST_JUDGED = {'wiring': 'slg', 'fd': 'sg', 'gas-pressure': 1, 'jump-Tb': 1, 'jump-Tm': 1}


def db_expected(name, ref):
    """what check_pure judges for a database chemical on EVERY T grid of the generator (a lower bound established over 300 random grids per chemical and reference phase;
    the liquid finite differences depend on the conditioning probe at the grid points and are not pinned)"""
    if name == 'Glucose':       # liquid model ends below Tb: nothing across the boiling point
        return {'wiring': 'g', 'fd': 'g', 'gas-pressure': 1, 'jump-Tb': 0, 'jump-Tm': 0} if ref == 'g' else {'wiring': 'sl', 'fd': 'sl', 'gas-pressure': 0, 'jump-Tb': 0, 'jump-Tm': 1}
    e = {'wiring': 'slg', 'fd': 'sg', 'gas-pressure': 1, 'jump-Tb': 1, 'jump-Tm': 1}
    if name == 'AceticAcid': e['wiring'] = 'sg'      # tabulated liquid model (starts just above Tb): the additivity probe refuses some grids
    return e


def db_complete(name, ref, c):
    """completeness of a database chemical: the pinned phases OR what the current data show (a regression of the data handles cannot switch the exception clauses off)"""
    comp = completeness(c)
    pinned = DB_COMPLETE[name]['lgs'.index(ref)]
    return {ph: bool(comp[ph] or ph in pinned) for ph in 'slg'}, [ph for ph in pinned if not comp[ph]]


def check_data_present(c, rec, tag, who):
    """the data every database chemical of this workload has (pinned): a model per phase, Tm, Tb, Hfus, Hvap"""
    missing = [f'Cn.{ph}' for ph in 'slg' if not c.locked_state and not getattr(c.Cn, ph).method]
    if c.locked_state and not getattr(c.Cn, 'method', None): missing.append(f'Cn (locked at {c.locked_state})')
    if not c.Tm: missing.append('Tm')
    if not c.Tb: missing.append('Tb')
    if c.Hfus is None: missing.append('Hfus')
    if c.Sfus is None: missing.append('Sfus')
    if not c.Hvap.method: missing.append('Hvap')
    rec.check(not missing, 'judged', f'data-present/{tag}', f'{who}: {missing} missing although the bundled database has them for this chemical (pinned): the clauses that need them would not be judged')
    return not missing


def judge_expected(rec, judged, exp, tag, who):
    """the clauses the pinned table expects must have been evaluated (not skipped by a probe, a branch on library state or a tolerated exception)"""
    for cl, key in (('integral-wiring', 'wiring'), ('finite-difference', 'fd')):
        missing = [ph for ph in exp[key] if ph not in judged[key]]
        rec.check(not missing, 'judged', f'{cl}/{tag}', f'{who}: the {cl} clause was not evaluated in phase(s) {missing} (judged: {sorted(judged[key])}; expected at least {exp[key]!r})')
        n = len([ph for ph in exp[key] if ph in judged[key]])
        if n: rec.hit(f'judged:{cl}:{tag}', n)
    for cl in ('gas-pressure', 'jump-Tb', 'jump-Tm'):
        if not exp[cl]: continue
        rec.check(judged[cl] >= 1, 'judged', f'{cl}/{tag}', f'{who}: the {cl} clause was not evaluated although it is expected for this chemical')
        if judged[cl]: rec.hit(f'judged:{cl}:{tag}')


def run_db(case, rec):
    c = chemical(case['name'], case['ref'])
    if isinstance(c, Exception):
        rec.exception('construct', c, what=f'Chemical({case["name"]}, phase_ref={case["ref"]}) raised {type(c).__name__}: {str(c)[:120]}'); return
    case = dict(case); case['complete'], lost = db_complete(case['name'], case['ref'], c)
    who = f'{case["name"]} (phase_ref={case["ref"]})'
    rec.check(not lost, 'judged', 'completeness/database', f'{who}: phases {lost} no longer count as complete (Cn model ranges / Tm / Tb / Hvap / Hfus) although they are pinned as complete for this chemical')
    check_data_present(c, rec, 'database', who)
    judged = check_pure(c, rec, case, 'database')
    judge_expected(rec, judged, db_expected(case['name'], case['ref']), 'database', who)


def run_synth(case, rec):
    rec.hit('synthetic')
    try:
        c = tmo.Chemical(case['name'], phase_ref=case['ref'], cache=False)
        for ph, co in case['cn'].items():
            a, b, d = co
            getattr(c.Cn, ph).add_method(
                f=lambda T, a=a, b=b, d=d: a + b * T + d * T * T,
                f_int=lambda T1, T2, a=a, b=b, d=d: a * (T2 - T1) + b / 2 * (T2 ** 2 - T1 ** 2) + d / 3 * (T2 ** 3 - T1 ** 3),
                f_int_over_T=lambda T1, T2, a=a, b=b, d=d: a * math.log(T2 / T1) + b * (T2 - T1) + d / 2 * (T2 ** 2 - T1 ** 2),
                Tmin=50., Tmax=2000.)
        c.Hvap.add_method(f=lambda T, hv=case['hvap']: hv, Tmin=50., Tmax=2000.)
        c.Tm = case['Tm']; c.Tb = case['Tb']
        c.Sfus = c.Hfus / case['Tm']          # the entropy of fusion is an independent constant of the chemical: keep it consistent with the new Tm
        c.reset_free_energies()
    except Exception as e:
        rec.exception('synthetic', e, what=f'building a synthetic chemical raised {type(e).__name__}: {str(e)[:150]}'); return
    case = dict(case); case['complete'] = {'s': True, 'l': True, 'g': True}
    if case['Tb'] < case['Tm']: rec.hit('order:Tb<Tm')
    if 298.15 in (case['Tb'], case['Tm']): rec.hit('order:Tref==T')
    rec.check(c.Tm == case['Tm'] and c.Tb == case['Tb'] and c.phase_ref == case['ref'], 'synthetic', 'setup', f'synthetic chemical did not take Tm/Tb/phase_ref: {c.Tm},{c.Tb},{c.phase_ref}')
    judged = check_pure(c, rec, case, 'synthetic', synthetic=True)
    judge_expected(rec, judged, ALL_JUDGED, 'synthetic', f'synthetic chemical on {case["name"]} (phase_ref={case["ref"]}, Tm={case["Tm"]}, Tb={case["Tb"]})')


def check_locked(k, rec, case, tag, unlocked=None, expect_model=False):
    """a phase-locked chemical: H, S take (T, P) and Cn takes (T); the reference state is the locked phase at (T_ref, P_ref)."""
    ph = k.locked_state
    rec.hit('locked'); rec.hit('locked:' + ph)
    Tref, Pref = TREF, PREF
    check_constants(k, rec)
    Cn = k.Cn
    if not getattr(Cn, 'method', None):
        # every database chemical of this workload has a model in every phase (pinned): only a chemical outside that list may lack one
        if expect_model: rec.check(False, 'judged', f'Cn-model/locked-{ph}/{tag}', f'{k.ID} locked at {ph} has no heat-capacity model although the bundled database has one for this phase (pinned): no clause judged')
        else: rec.refuse('locked phase has no heat-capacity model (incomplete data)')
        return
    lim = Cn.T_limits.get(Cn.method)
    try:
        h0 = k.H(Tref, Pref); s0 = k.S(Tref, Pref)
        rec.check(h0 == HREF and s0 == k.S0, 'reference-state', f'locked-{ph}/{tag}', f'{k.ID} locked at {ph}: H(ref)={h0!r} (must be {HREF}), S(ref)={s0!r} (S0={k.S0})')
    except Exception as e:
        rec.exception('reference-state', e, what=f'{k.ID} locked at {ph}: H/S at the reference state raised {type(e).__name__}: {str(e)[:120]}'); return
    Ts = [T for T in case['Ts'] if lim is None or lim[0] <= T <= lim[1]]
    P = case['Ps'][0]
    for T1, T2 in zip(Ts[:-1], Ts[1:]):
        try:
            dH = k.H(T2, P) - k.H(T1, P); dS = k.S(T2, P) - k.S(T1, P)
            iH = Cn.T_dependent_property_integral(T1, T2); iS = Cn.T_dependent_property_integral_over_T(T1, T2)
        except Exception as e:
            rec.exception('evaluate', e, what=f'{k.ID} locked at {ph}: H/S raised {type(e).__name__}: {str(e)[:120]} inside the range of its heat-capacity model'); break
        defect = additive(Cn, T1, T2, (Tref, k.Tm, k.Tb))
        if defect is False:
            rec.refuse('external heat-capacity model does not integrate additively over its range: wiring clause not judged'); continue
        scale = max(abs(k.H(T2, P)), abs(k.H(T1, P)), abs(iH), 1.0)
        rec.check(abs(dH - iH) <= 1e-11 * scale + 1.5 * defect[0], 'integral-wiring', f'H/locked-{ph}/{tag}', f'{k.ID} locked at {ph}: H({T2})-H({T1}) = {dH!r} but integral of Cn = {iH!r}', residual=max(abs(dH - iH) - 1.5 * defect[0], 0.0) / scale)
        sscale = max(abs(k.S(T2, P)), abs(iS), 1.0)
        rec.check(abs(dS - iS) <= 1e-11 * sscale + 1.5 * defect[1], 'integral-wiring', f'S/locked-{ph}/{tag}', f'{k.ID} locked at {ph}: S({T2})-S({T1}) = {dS!r} but integral of Cn/T = {iS!r}', residual=max(abs(dS - iS) - 1.5 * defect[1], 0.0) / sscale)
        rec.hit(f'judged:integral-wiring:locked-{ph}')
        rec.mark_nontrivial(case_hash((k.ID, 'locked', ph, T1, T2, tag)))
    for T in Ts[1:-1]:
        if not well_conditioned(Cn, T): rec.refuse('ill-conditioned database model: finite-difference clause not judged'); continue
        try:
            h = 1e-3; P2 = case['Ps'][-1]
            dHdT = (k.H(T + h, P2) - k.H(T - h, P2)) / (2 * h); dSdT = (k.S(T + h, P2) - k.S(T - h, P2)) / (2 * h); cn = Cn(T)
        except Exception as e:
            # T is an interior grid point inside the range of the model, and the model evaluates and integrates at T-h, T+h (conditioning probe above)
            rec.exception('finite-difference', e, what=f'{k.ID} locked at {ph}: H/S/Cn at T={T} +- {h} raised {type(e).__name__}: {str(e)[:120]} inside the range of its heat-capacity model'); continue
        rec.check(abs(dHdT - cn) <= 1e-5 * abs(cn) + 1e-7 * abs(k.H(T, P2)) / h * 1e-9, 'finite-difference', f'dH/dT/locked-{ph}/{tag}', f'{k.ID} locked at {ph} T={T}: dH/dT={dHdT!r} Cn={cn!r}', residual=abs(dHdT - cn) / abs(cn))
        rec.check(abs(dSdT - cn / T) <= 1e-5 * abs(cn / T), 'finite-difference', f'dS/dT/locked-{ph}/{tag}', f'{k.ID} locked at {ph} T={T}: dS/dT={dSdT!r} Cn/T={cn / T!r}', residual=abs(dSdT - cn / T) / abs(cn / T))
    if ph == 'g' and Ts:
        T = Ts[len(Ts) // 2]
        try:
            for P1, P2 in zip(case['Ps'][:-1], case['Ps'][1:]):
                d = k.S(T, P2) - k.S(T, P1); exp = -tmo.constants.R * math.log(P2 / P1)
                rec.check(abs(d - exp) <= 1e-10 * abs(exp) + 1e-12 * abs(k.S(T, P1)), 'gas-pressure', f'locked-g/{tag}', f'{k.ID} locked at g: S({P2})-S({P1}) = {d!r} expected -R ln(P2/P1) = {exp!r}', residual=abs(d - exp) / max(abs(exp), 1e-300))
                dl = k.H(T, P2) - k.H(T, P1)
                rec.check(dl == 0, 'gas-pressure', f'H-independent/locked-g/{tag}', f'{k.ID} locked at g: ideal gas enthalpy changed with pressure by {dl}')
        except Exception as e:
            rec.exception('gas-pressure', e, what=f'{k.ID} locked at g: gas entropy raised {type(e).__name__}: {str(e)[:100]}')
    if unlocked is not None and unlocked.phase_ref == ph:
        # same reference phase, same reference values: the locked functor must agree with the phase-resolved one
        for T in Ts:
            try:
                # (entropy relative to each object's own S0: locking keeps the absolute entropy the chemical was loaded with)
                a = (k.H(T, P), k.S(T, P) - k.S0, Cn(T)); b = (unlocked.H(ph, T, P), unlocked.S(ph, T, P) - unlocked.S0, unlocked.Cn(ph, T))
            except Exception as e:
                rec.exception('locked-equals-unlocked', e, what=f'{k.ID}: evaluating the locked / unlocked pair raised {type(e).__name__}: {str(e)[:100]}'); break
            rec.check(all(abs(x - y) <= 1e-11 * max(abs(x), abs(y), 1.0) for x, y in zip(a, b)), 'locked-equals-unlocked', f'{ph}/{tag}',
                      f'{k.ID} locked at {ph} (H,S-S0,Cn)(T={T}) = {a} but the unlocked chemical with phase_ref={ph} gives {b}')


def run_lock(case, rec):
    name, ref, ph, how = case['name'], case['ref'], case['ph'], case['how']
    c = chemical(name, ref)
    if isinstance(c, Exception):
        rec.exception('construct', c, what=f'Chemical({name}, phase_ref={ref}) raised {type(c).__name__}: {str(c)[:120]}'); return
    try:
        if how == 'at_state-copy': k = c.at_state(ph, copy=True)
        elif how == 'at_state':
            k = tmo.Chemical(name, phase_ref=ref, cache=False); k.at_state(ph)
            k.at_state(ph)                                              # locking twice at the same phase is a documented no-op
        else: k = tmo.Chemical(name, phase=ph, cache=False)            # constructor form
    except Exception as e:
        rec.exception('locked', e, what=f'locking {name} (phase_ref={ref}) at {ph} via {how} raised {type(e).__name__}: {str(e)[:120]}'); return
    rec.check(k.locked_state == ph and k.phase_ref == ph, 'locked', f'state/{how}', f'{name} locked at {ph} via {how}: locked_state={k.locked_state!r}, phase_ref={k.phase_ref!r}')
    if how == 'at_state-copy':
        rec.check(c.locked_state is None and c.phase_ref == ref, 'locked', 'copy-leaves-original', f'at_state(copy=True) changed the original chemical: locked_state={c.locked_state!r}, phase_ref={c.phase_ref!r}')
    check_data_present(k, rec, f'locked/{how}', f'{name} locked at {ph} via {how}')
    check_locked(k, rec, case, how, unlocked=chemical(name, ph) if not isinstance(chemical(name, ph), Exception) else None, expect_model=name in DB_COMPLETE)


_wide = {}


def run_dbx(case, rec):
    """a chemical of the bundled heat-capacity index, T grids spanning each phase model's own range (ends included), extreme pressures."""
    key = (case['cas'], case['ref'])
    if key not in _wide:
        try: _wide[key] = tmo.Chemical(case['cas'], phase_ref=case['ref'], cache=False)
        except Exception as e: _wide[key] = e
    c = _wide[key]
    if isinstance(c, Exception):
        # 'not in the database' is the documented refusal (LookupError), and it cannot depend on the reference phase asked for: the same entry must then be refused with the default
        # reference phase too. Anything else (an entry that loads by default but not with phase_ref = s / g; another exception type) is a failure of the constructor.
        dk = (case['cas'], None)
        if dk not in _wide:
            try: _wide[dk] = tmo.Chemical(case['cas'], cache=False)
            except Exception as e: _wide[dk] = e
        d = _wide[dk]
        if isinstance(c, LookupError) and isinstance(d, LookupError):
            rec.refuse('database entry is not known to the chemical database (LookupError, with the default reference phase too): not judged'); return
        ek = exc_key(c)
        if ek.endswith('@?'): rec.exception('construct', c); return
        rec.violation(f'C07/construct/database-wide/phase_ref={case["ref"]}/default-{"loads" if not isinstance(d, Exception) else "fails-" + type(d).__name__}/exception/{ek}',
                      f'Chemical({case["cas"]!r}, phase_ref={case["ref"]!r}) raised {type(c).__name__}: {str(c)[:150]}; with the default reference phase: '
                      f'{"loads" if not isinstance(d, Exception) else type(d).__name__ + ": " + str(d)[:100]}')
        return
    rec.hit('wide-db')
    rec.ok('construct')
    # every entry of the heat-capacity index has a model in each phase once loaded (all 367 on the pinned data package): a lost model would silently drop that phase
    nomodel = [ph for ph in 'slg' if not getattr(c.Cn, ph).method]
    rec.check(not nomodel, 'judged', 'Cn-model/database-wide', f'{case["cas"]} (phase_ref={case["ref"]}): no heat-capacity model in phase(s) {nomodel} although the entry is in the bundled heat-capacity index (all of its entries load a model per phase)')
    case = dict(case); case['complete'] = completeness(c); case['wide'] = True
    by = {}
    for ph in 'slg':
        Cn = getattr(c.Cn, ph)
        lim = Cn.T_limits.get(Cn.method) if Cn.method else None
        if not lim: continue
        lo, hi = max(lim[0], 20.0), min(lim[1], 3000.0)
        if not hi > lo: continue
        by[ph] = [lo] + [round(lo + f * (hi - lo), 3) for f in sorted(case['fr'])] + [hi]
        rec.hit('wide:T-limit-ends')
    if 'g' not in by: case['Ts'] = case['Ts']
    case['Ts_by_phase'] = by
    judged = check_pure(c, rec, case, 'database-wide')
    for cl, key in (('integral-wiring', 'wiring'), ('finite-difference', 'fd')):
        if judged[key]: rec.hit(f'judged:{cl}:database-wide', len(judged[key]))
    for cl in ('gas-pressure', 'jump-Tb', 'jump-Tm'):
        if judged[cl]: rec.hit(f'judged:{cl}:database-wide')


def run_cycle(case, rec):
    """the reference phase changed through the setter on one object (and a copy of it): every pure-component clause again."""
    try:
        c = tmo.Chemical(case['name'], phase_ref=case['refs'][0], cache=False)
    except Exception as e:
        rec.exception('construct', e, what=f'Chemical({case["name"]}, phase_ref={case["refs"][0]}) raised {type(e).__name__}: {str(e)[:120]}'); return
    for ref in case['refs'][1:]:
        try:
            c.phase_ref = ref
        except Exception as e:
            rec.exception('setter-cycle', e, what=f'{case["name"]}.phase_ref = {ref!r} raised {type(e).__name__}: {str(e)[:120]}'); return
        rec.check(c.phase_ref == ref, 'setter-cycle', 'value', f'phase_ref setter: {c.phase_ref!r} after assigning {ref!r}')
        sub = dict(case); sub['complete'], lost = db_complete(case['name'], ref, c)
        who = f'{case["name"]} after phase_ref = {ref!r} (setter, route {case["refs"]})'
        rec.check(not lost, 'judged', 'completeness/setter', f'{who}: phases {lost} no longer count as complete although they are pinned as complete for a chemical constructed with this reference phase')
        check_data_present(c, rec, 'setter', who)
        judged = check_pure(c, rec, sub, 'setter')
        judge_expected(rec, judged, db_expected(case['name'], ref), 'setter', who)
        fresh = chemical(case['name'], ref)
        if not isinstance(fresh, Exception):
            # enthalpy has the same reference value (H_ref) whatever the route to this reference phase
            for ph in 'slg':
                if not (sub['complete'][ph] and getattr(c.Cn, ph).method): continue
                try:
                    a = [c.H(ph, T, case['Ps'][0]) for T in case['Ts']]; b = [fresh.H(ph, T, case['Ps'][0]) for T in case['Ts']]
                    ds = [c.S(ph, T, case['Ps'][0]) - fresh.S(ph, T, case['Ps'][0]) for T in case['Ts']]
                except Exception as e:
                    rec.exception('setter-cycle', e, what=f'{case["name"]} after phase_ref = {ref!r}: H/S in phase {ph} raised {type(e).__name__}: {str(e)[:100]}'); continue
                rec.check(all(abs(x - y) <= 1e-11 * max(abs(x), abs(y), 1.0) for x, y in zip(a, b)), 'setter-cycle', f'H-equals-fresh/{ph}', f'{case["name"]} phase_ref set to {ref}: H({ph}) = {a} but a chemical constructed with phase_ref={ref} gives {b}')
                # entropy differs from the freshly constructed chemical at most by the constant S0 difference
                rec.check(all(abs(d - (c.S0 - fresh.S0)) <= 1e-10 * max(abs(c.S0), abs(fresh.S0), 1.0) for d in ds), 'setter-cycle', f'S-equals-fresh-up-to-S0/{ph}',
                          f'{case["name"]} phase_ref set to {ref}: S({ph}) - S_fresh({ph}) = {ds}, S0 difference {c.S0 - fresh.S0}')
        rec.hit('setter-cycle')
    try:
        k = c.copy(case['name'] + '_copy')
    except Exception as e:
        rec.exception('copy', e, what=f'{case["name"]}.copy raised {type(e).__name__}: {str(e)[:120]}'); return
    rec.hit('copy')
    sub = dict(case); sub['complete'], lost = db_complete(case['name'], case['refs'][-1], k)
    who = f'copy of {case["name"]} (phase_ref={case["refs"][-1]})'
    rec.check(not lost, 'judged', 'completeness/copy', f'{who}: phases {lost} no longer count as complete although they are pinned as complete for the original')
    rec.check(k.phase_ref == c.phase_ref, 'copy', 'phase_ref', f'copy has phase_ref {k.phase_ref!r}, original {c.phase_ref!r}')
    check_data_present(k, rec, 'copy', who)
    judged = check_pure(k, rec, sub, 'copy')
    judge_expected(rec, judged, db_expected(case['name'], case['refs'][-1]), 'copy', who)
    for ph in 'slg':
        if not sub['complete'][ph]: continue
        try:
            a = [(k.H(ph, T, 101325.), k.S(ph, T, 101325.)) for T in case['Ts']]; b = [(c.H(ph, T, 101325.), c.S(ph, T, 101325.)) for T in case['Ts']]
        except Exception as e:
            rec.exception('copy', e, what=f'copy of {case["name"]}: H/S raised {type(e).__name__}: {str(e)[:100]}'); continue
        rec.check(a == b, 'copy', f'values/{ph}', f'copy of {case["name"]} (phase_ref={c.phase_ref}) gives (H,S)({ph}) = {a}, original {b}')


_locked_pkg = {}


def run_mixlock(case, rec):
    """mixture with one phase-locked member (e.g. solid-locked glucose in a liquid mixture): still the mole-weighted sum of the pure values."""
    key = (case['locked'], case['lock_phase'])
    if key not in _locked_pkg:
        cs = [tmo.Chemical(i, cache=False) for i in ('Water', 'Ethanol')] + [tmo.Chemical(case['locked'], phase=case['lock_phase'], cache=False)]
        _locked_pkg[key] = tmo.Thermo(tmo.Chemicals(cs))
    th = _locked_pkg[key]
    mix = th.mixture; chems = list(th.chemicals)
    n = np.array(case['n'], float); ph, T, P = case['phase'], case['T'], case['P']
    pure = lambda c, f: (getattr(c, f)(T, P) if f != 'Cn' else c.Cn(T)) if c.locked_state else (getattr(c, f)(ph, T, P) if f != 'Cn' else c.Cn(ph, T))
    try:
        Hm = mix.H(ph, n, T, P); Cm = mix.Cn(ph, n, T); Sm = mix.S(ph, n, T, P)
        Hp = sum(n[i] * pure(chems[i], 'H') for i in range(len(n)) if n[i]); Cp = sum(n[i] * pure(chems[i], 'Cn') for i in range(len(n)) if n[i])
        Sp = sum(n[i] * pure(chems[i], 'S') for i in range(len(n)) if n[i])
    except Exception as e:
        rec.exception('mixture-sum', e, what=f'mixture with a {case["lock_phase"]}-locked {case["locked"]}: H/Cn/S raised {type(e).__name__}: {str(e)[:120]}'); return
    rec.hit('mix-with-locked')
    rec.check(abs(Hm - Hp) <= 1e-12 * max(abs(Hm), abs(Hp), 1), 'mixture-sum', 'H/locked-member', f'mixture H {Hm!r} != sum n_i H_i {Hp!r} with a locked member', residual=abs(Hm - Hp) / max(abs(Hp), 1))
    rec.check(abs(Cm - Cp) <= 1e-12 * abs(Cp), 'mixture-sum', 'Cn/locked-member', f'mixture Cn {Cm!r} != sum n_i Cn_i {Cp!r} with a locked member', residual=abs(Cm - Cp) / abs(Cp))
    judge_mixing_term(rec, n, Sm, Sp, case, 'locked-member')
    # the stream of the same package
    try:
        a = tmo.Stream(None, phase=ph, T=T, P=P, thermo=th)
        for i, v in zip(th.chemicals.IDs, case['n']):
            if v: a.imol[i] = v
        rec.check(abs(a.H - Hp) <= 1e-11 * max(abs(Hp), 1.0) and abs(a.C - Cp) <= 1e-11 * abs(Cp), 'stream-sum', 'H-C/locked-member', f'Stream.H = {a.H!r}, Stream.C = {a.C!r} but sum n_i H_i = {Hp!r}, sum n_i Cn_i = {Cp!r}')
    except Exception as e:
        rec.exception('stream-sum', e, what=f'stream with a locked member raised {type(e).__name__}: {str(e)[:120]}')
    rec.mark_nontrivial(case_hash(case))


def judge_mixing_term(rec, n, Sm, Sp, case, tag):
    """S - sum n_i s_i = -R sum n_i ln x_i (classifying the recorded R-less, mis-signed term under its own key)."""
    x = n[n > 0] / n.sum()
    nlnx = float((n[n > 0] * np.log(x)).sum())
    Rl = tmo.constants.R
    if len(x) == 1:
        rec.hit('mix:single-component')
        rec.check(abs(Sm - Sp) <= 1e-12 * max(abs(Sm), abs(Sp), 1.0), 'mixing-term', f'single-component/{tag}', f'a single component has no mixing term, but mixture S = {Sm!r} and n s_i = {Sp!r}')
        return
    if abs(nlnx) <= 1e-6: return
    coeff = (Sm - Sp) / nlnx
    if abs(coeff + Rl) <= 1e-9 * Rl: rec.ok('mixing-term', abs(coeff + Rl) / Rl)
    elif abs(coeff - 1.0) <= 1e-9:
        rec.violation('C07/mixing-term/coefficient=+1', f'mixture S - sum n_i s_i = c * sum n_i ln x_i with c = {coeff!r}; the ideal mixing term requires c = -R = {-Rl} (the model adds +sum n_i ln x_i: no R, opposite sign)')
    else:
        rec.violation('C07/mixing-term/coefficient=other', f'mixture S - sum n_i s_i = c * sum n_i ln x_i with c = {coeff!r}; expected -R = {-Rl} ({tag})')


_excess_mix = {}


def run_mix_added(case, rec, th, mix, chems, ids, n, ph, T, P, Hm, Cm, Sm, Hp, Cp, Sp):
    """clauses added to the mixture cases (called from run_mix after the original clauses)."""
    Rl = tmo.constants.R
    if ph == 's': rec.hit('mix:solid')
    # a single component has no mixing term
    if (n > 0).sum() == 1: judge_mixing_term(rec, n, Sm, Sp, case, 'mixture')
    # gas entropy of the mixture falls by R sum(n) ln(P2/P1)
    P2 = case.get('P2')
    if ph == 'g' and P2:
        try:
            d = mix.S('g', n, T, P2) - Sm; exp = -Rl * n.sum() * math.log(P2 / P)
            rec.check(abs(d - exp) <= 1e-10 * abs(exp) + 1e-12 * abs(Sm), 'gas-pressure', 'mixture', f'mixture S(g,{P2})-S(g,{P}) = {d!r} expected -R sum(n) ln(P2/P1) = {exp!r}', residual=abs(d - exp) / max(abs(exp), 1e-300))
            rec.check(mix.H('g', n, T, P2) == Hm, 'gas-pressure', 'H-independent/mixture', 'ideal gas mixture enthalpy changed with pressure')
            rec.hit('mix:gas-pressure')
        except Exception as e:
            rec.exception('gas-pressure', e, what=f'mixture gas entropy raised {type(e).__name__}: {str(e)[:100]}')
    # multi-phase entry points are the sums of the single-phase ones
    ph2 = case.get('phase2'); m = np.array(case['m'], float)
    if ph2:
        try:
            pm = [(ph, n), (ph2, m)]
            parts = [(mix.H(q, v, T, P), mix.S(q, v, T, P), mix.Cn(q, v, T)) for q, v in pm]
            tot = [sum(p[j] for p in parts) for j in range(3)]
            got = [mix.xH(pm, T, P), mix.xS(pm, T, P), mix.xCn(pm, T)]
            for nm, g_, t_ in zip(('xH', 'xS', 'xCn'), got, tot):
                rec.check(abs(g_ - t_) <= 1e-12 * max(abs(g_), abs(t_), 1.0), 'multi-phase-sum', nm, f'{nm} = {g_!r} but the sum of the single-phase values over {ph},{ph2} is {t_!r}')
            ms = tmo.MultiStream(None, phases=(ph, ph2), T=T, P=P, thermo=th)
            for q, v in pm:
                for i, val in zip(ids, v):
                    if val: ms.imol[q, i] = float(val)
            gotm = [ms.H, ms.S, ms.C]
            for nm, g_, t_ in zip(('MultiStream.H', 'MultiStream.S', 'MultiStream.C'), gotm, tot):
                sc = max(abs(t_), max(abs(p[('MultiStream.H', 'MultiStream.S', 'MultiStream.C').index(nm)]) for p in parts), 1.0)
                rec.check(abs(g_ - t_) <= 1e-11 * sc, 'multi-phase-sum', nm, f'{nm} = {g_!r} but the sum of the single-phase mixture values over {ph},{ph2} is {t_!r}')
        except Exception as e:
            rec.exception('multi-phase-sum', e, what=f'multi-phase mixture / MultiStream energies raised {type(e).__name__}: {str(e)[:120]}')
    # Stream properties (sparse flow vectors) against the mole-weighted sums
    try:
        a = tmo.Stream(None, phase=ph, T=T, P=P, thermo=th)
        for i, v in zip(ids, case['n']):
            if v: a.imol[i] = v
        rec.check(abs(a.H - Hp) <= 1e-11 * max(abs(Hp), abs(Hm), 1.0), 'stream-sum', 'H', f'Stream.H = {a.H!r} but sum n_i H_i = {Hp!r}')
        rec.check(abs(a.C - Cp) <= 1e-11 * abs(Cp) and abs(a.Cn - Cp / n.sum()) <= 1e-11 * abs(Cp / n.sum()), 'stream-sum', 'C-Cn', f'Stream.C = {a.C!r}, Stream.Cn = {a.Cn!r} but sum n_i Cn_i = {Cp!r} (per mole {Cp / n.sum()!r})')
        rec.check(abs(a.S - Sm) <= 1e-11 * max(abs(Sm), 1.0), 'stream-sum', 'S', f'Stream.S = {a.S!r} but the mixture entropy of the same flows is {Sm!r}')
    except Exception as e:
        rec.exception('stream-sum', e, what=f'Stream H/S/C raised {type(e).__name__}: {str(e)[:120]}')
    # excess terms are added only when include_excess_energies is set
    try:
        mx = _excess_mix.get(id(th))
        if mx is None: mx = _excess_mix[id(th)] = tmo.IdealMixture.from_chemicals(th.chemicals, include_excess_energies=True)
        He = sum(n[i] * chems[i].H_excess(ph, T, P) for i in range(len(n)) if n[i]); Se = sum(n[i] * chems[i].S_excess(ph, T, P) for i in range(len(n)) if n[i])
        Hx = mx.H(ph, n, T, P); Sx = mx.S(ph, n, T, P)
        rec.check(mix.include_excess_energies is False and mx.include_excess_energies is True, 'excess', 'flag', 'include_excess_energies flags not as constructed')
        rec.check(abs((Hx - Hm) - He) <= 1e-11 * max(abs(Hx), abs(Hm), abs(He), 1.0), 'excess', 'H', f'H(with excess) - H(without) = {Hx - Hm!r} but sum n_i H_excess_i = {He!r}')
        rec.check(abs((Sx - Sm) - Se) <= 1e-11 * max(abs(Sx), abs(Sm), abs(Se), 1.0), 'excess', 'S', f'S(with excess) - S(without) = {Sx - Sm!r} but sum n_i S_excess_i = {Se!r}')
    except Exception as e:
        rec.exception('excess', e, what=f'mixture with include_excess_energies=True raised {type(e).__name__}: {str(e)[:120]}')


def mix_streams(case, rec, th, mix, ids, ph, T, P, flows, mode):
    """isothermal-isobaric mixing of several streams (added forms: equal compositions, an empty stream, three streams)."""
    try:
        ss = []
        for fl in flows:
            s_ = tmo.Stream(None, phase=ph, T=T, P=P, thermo=th)
            for i, v in zip(ids, fl):
                if v: s_.imol[i] = v
            ss.append(s_)
        Ss = [s_.S for s_ in ss]
        cmb = tmo.Stream(None, phase=ph, T=T, P=P, thermo=th)
        cmb.mix_from(ss, energy_balance=False)
        Sc = cmb.S
    except Exception as e:
        rec.exception('mixing-never-lowers-S', e, what=f'stream entropies ({mode}) raised {type(e).__name__}: {e}'); return
    rec.hit('mix:' + mode)
    drop = sum(Ss) - Sc
    tol = 1e-9 * max([abs(v) for v in Ss] + [abs(Sc), 1.0])
    if mode in ('equal-composition', 'empty-stream'):
        # no mixing entropy at all: the total is exactly conserved
        rec.check(abs(drop) <= tol, 'mixing-never-lowers-S', f'conserved/{mode}', f'mixing streams of {"equal composition" if mode == "equal-composition" else "which one is empty"} at equal T, P changed total entropy: {sum(Ss)!r} -> {Sc!r}')
        return
    if drop <= tol:
        rec.ok('mixing-never-lowers-S')
    else:
        arrs = [np.array(fl, float) for fl in flows]; nc = sum(arrs)
        def t(v):
            v = v[v > 0]; return float((v * np.log(v / v.sum())).sum()) if len(v) else 0.0
        term = t(nc) - sum(t(v) for v in arrs)
        ratio = drop / (-term) if term else float('inf')
        units = Sc / mix.S(ph, nc, T, P) if mix.S(ph, nc, T, P) else 1.0
        if abs(ratio / units - 1.0) <= 1e-6:
            rec.violation('C07/mixing-never-lowers-S/coefficient=+1', f'mixing {len(flows)} streams at equal T and P lowered total entropy by {drop!r} = exactly the mis-signed, R-less mixing term (same mechanism as mixing-term/coefficient=+1)')
        else:
            rec.violation('C07/mixing-never-lowers-S/other', f'mixing {len(flows)} streams at equal T={T}, P={P} lowered total entropy: {sum(Ss)!r} -> {Sc!r}')


def run_mix(case, rec):
    th = thermo_of(MIX)
    mix = th.mixture
    ids = th.chemicals.IDs
    n = np.array(case['n'], float)
    ph, T, P = case['phase'], case['T'], case['P']
    chems = list(th.chemicals)
    try:
        Hm = mix.H(ph, n, T, P); Cm = mix.Cn(ph, n, T); Sm = mix.S(ph, n, T, P)
        Hp = sum(n[i] * chems[i].H(ph, T, P) for i in range(len(n)) if n[i]); Cp = sum(n[i] * chems[i].Cn(ph, T) for i in range(len(n)) if n[i])
        Sp = sum(n[i] * chems[i].S(ph, T, P) for i in range(len(n)) if n[i])
    except Exception as e:
        rec.exception('mixture-sum', e, what=f'mixture H/Cn/S raised {type(e).__name__}: {str(e)[:120]}'); return
    rec.check(abs(Hm - Hp) <= 1e-12 * max(abs(Hm), abs(Hp), 1), 'mixture-sum', 'H', f'mixture H {Hm!r} != sum n_i H_i {Hp!r}', residual=abs(Hm - Hp) / max(abs(Hp), 1))
    rec.check(abs(Cm - Cp) <= 1e-12 * abs(Cp), 'mixture-sum', 'Cn', f'mixture Cn {Cm!r} != sum n_i Cn_i {Cp!r}', residual=abs(Cm - Cp) / abs(Cp))
    k = case['k']
    try:
        rec.check(abs(mix.H(ph, k * n, T, P) - k * Hm) <= 1e-11 * abs(k * Hm) + 1e-9 and abs(mix.Cn(ph, k * n, T) - k * Cm) <= 1e-11 * abs(k * Cm), 'extensive', 'H-Cn', f'H or Cn not extensive for k={k}')
        rec.check(abs(mix.S(ph, k * n, T, P) - k * Sm) <= 1e-11 * abs(k * Sm) + 1e-9, 'extensive', 'S', f'S(k n) = {mix.S(ph, k * n, T, P)!r} != k S(n) = {k * Sm!r}')
    except Exception as e:
        rec.exception('extensive', e, what=f'scaled mixture raised {type(e).__name__}: {e}')
    run_mix_added(case, rec, th, mix, chems, ids, n, ph, T, P, Hm, Cm, Sm, Hp, Cp, Sp)
    x = n[n > 0] / n.sum()
    nlnx = float((n[n > 0] * np.log(x)).sum())
    if len(x) >= 2 and abs(nlnx) > 1e-6:
        coeff = (Sm - Sp) / nlnx
        Rl = tmo.constants.R
        if abs(coeff + Rl) <= 1e-9 * Rl:
            rec.ok('mixing-term', abs(coeff + Rl) / Rl)
        elif abs(coeff - 1.0) <= 1e-9:
            rec.violation('C07/mixing-term/coefficient=+1', f'mixture S - sum n_i s_i = c * sum n_i ln x_i with c = {coeff!r}; the ideal mixing term requires c = -R = {-Rl} (the model adds +sum n_i ln x_i: no R, opposite sign)')
        else:
            rec.violation('C07/mixing-term/coefficient=other', f'mixture S - sum n_i s_i = c * sum n_i ln x_i with c = {coeff!r}; expected -R = {-Rl}')
        rec.mark_nontrivial(case_hash(case))
    # isothermal-isobaric mixing of two streams never lowers entropy
    a = tmo.Stream(None, phase=ph, T=T, P=P, thermo=th); b = tmo.Stream(None, phase=ph, T=T, P=P, thermo=th)
    for i, v in zip(ids, case['n']):
        if v: a.imol[i] = v
    for i, v in zip(ids, case['m']):
        if v: b.imol[i] = v
    try:
        Sa, Sb = a.S, b.S
        cmb = tmo.Stream(None, phase=ph, T=T, P=P, thermo=th)
        cmb.mix_from([a, b], energy_balance=False)
        Sc = cmb.S
    except Exception as e:
        rec.exception('mixing-never-lowers-S', e, what=f'stream entropies raised {type(e).__name__}: {e}'); return
    drop = (Sa + Sb) - Sc
    tol = 1e-9 * max(abs(Sa), abs(Sb), abs(Sc), 1.0)
    if drop <= tol:
        rec.ok('mixing-never-lowers-S')
    else:
        # classify: a drop equal to the mis-signed, R-less mixing term is the same mechanism as coefficient=+1
        na = np.array(case['n'], float); nb = np.array(case['m'], float); nc = na + nb
        def t(v):
            v = v[v > 0]; return float((v * np.log(v / v.sum())).sum()) if len(v) else 0.0
        # kmol/hr flows: stream S = 1000 * S(mol)?  use the ratio test instead of absolute units
        term = t(nc) - t(na) - t(nb)      # <= 0
        ratio = drop / (-term) if term else float('inf')
        units = Sc / mix.S(ph, nc, T, P) if mix.S(ph, nc, T, P) else 1.0
        if abs(ratio / units - 1.0) <= 1e-6:
            rec.violation('C07/mixing-never-lowers-S/coefficient=+1', f'mixing two streams at equal T and P lowered total entropy by {drop!r} = exactly the mis-signed, R-less mixing term (same mechanism as mixing-term/coefficient=+1)')
        else:
            rec.violation('C07/mixing-never-lowers-S/other', f'mixing two streams at equal T={T}, P={P} lowered total entropy: {Sa + Sb!r} -> {Sc!r}')
    rec.mark_nontrivial(case_hash((case['n'], case['m'], T, P, ph)))
    if case.get('mk'):
        mix_streams(case, rec, th, mix, ids, ph, T, P, [case['n'], [case['mk'] * v for v in case['n']]], 'equal-composition')
    if case.get('m2') is not None:
        mix_streams(case, rec, th, mix, ids, ph, T, P, [case['n'], case['m'], case['m2']], 'three-streams')
    if case.get('empty'):
        mix_streams(case, rec, th, mix, ids, ph, T, P, [case['n'], [0.0] * len(case['n'])], 'empty-stream')


# ---------------------------------------------------------------------------------------------------------------------------------
# (H) histories: property packages built, re-built and kept alive while the data of their member chemicals change
HIST_POOL = ('Water', 'Ethanol', 'Methanol', 'Octane', 'Acetone', 'Toluene', 'Propanol', 'Hexane', 'Benzene', 'Butanol', 'Heptane')
HIST_REBUILD_OPS = ('phase_ref', 'at_state', 'Tb', 'Tm', 'reset_free_energies', 'Cn-add_method', 'Hvap-add_method', 'copy_models_from', 'replace-copy', 'replace-locked-copy')   # the chemical's H/S functors are re-created
HIST_INPLACE_OPS = ('Hfus', 'S0')                                                                                                                                       # constants pushed into the existing functors
HIST_OBJECT_FORMS = ('from_chemicals', 'from_chemicals-compiled', 'Thermo', 'Thermo-Chemicals', 'subset', 'subset-smaller', 'extended', 'set_thermo')
HIST_ID_FORMS = ('Thermo-ids', 'from_chemicals-ids', 'set_thermo-ids')
_hist_base = {}
_hist_count = [0]


def hist_family(form):
    """construction path of a package, as named in oracle keys (the exact form is in the witness text)"""
    return 'subset' if form in ('subset', 'subset-smaller', 'extended') else form.split('-')[0]


def hist_base(name):
    """one chemical per name and process (never mutated): the source of the per-case copies and of copy_models_from"""
    if name not in _hist_base: _hist_base[name] = tmo.Chemical(name, cache=False)
    return _hist_base[name]


def hist_pure(c, f, ph, T, P):
    """current pure-component value of a package member (locked chemicals take no phase)"""
    if f == 'Cn': return c.Cn(T) if c.locked_state else c.Cn(ph, T)
    return getattr(c, f)(T, P) if c.locked_state else getattr(c, f)(ph, T, P)


def hist_mutate(c, m, case, rec):
    """apply one documented modification to a chemical; returns the chemical now occupying the slot (a new object for the replace ops)"""
    op = m['op']
    if op == 'phase_ref': c.phase_ref = m['ref']
    elif op == 'at_state': c.at_state(m['ph'])
    elif op == 'Tb':
        Tb = round(c.Tb * m['f'], 3)
        if not (c.Tm and c.Tm < Tb): return None
        c.Tb = Tb
    elif op == 'Tm':
        Tm = round(c.Tm * m['f'], 3)
        if not (c.Tb and Tm < c.Tb): return None
        c.Tm = Tm; c.Sfus = c.Hfus / Tm            # the entropy of fusion is an independent constant of the chemical: keep it consistent with the new Tm
    elif op == 'Hfus':
        c.Hfus = round(c.Hfus * m['f'], 2); c.Sfus = c.Hfus / c.Tm
    elif op == 'S0': c.S0 = m['v']
    elif op == 'reset_free_energies': c.reset_free_energies()
    elif op == 'Cn-add_method':
        a, b = m['co']
        model = c.Cn if c.locked_state else getattr(c.Cn, m['ph'])
        model.add_method(f=lambda T, a=a, b=b: a + b * T, f_int=lambda T1, T2, a=a, b=b: a * (T2 - T1) + b / 2 * (T2 ** 2 - T1 ** 2),
                         f_int_over_T=lambda T1, T2, a=a, b=b: a * math.log(T2 / T1) + b * (T2 - T1), Tmin=50., Tmax=2000.)
        c.reset_free_energies()                      # the documented way to make new heat-capacity data effective
    elif op == 'Hvap-add_method':
        c.Hvap.add_method(f=lambda T, hv=m['hv']: hv, Tmin=50., Tmax=2000.)
        c.reset_free_energies()
    elif op == 'copy_models_from': c.copy_models_from(hist_base(m['other']), list(m['models']))
    elif op == 'replace-copy':
        k = c.copy(c.ID)
        if not k.locked_state: k.phase_ref = m['ref']
        return k
    elif op == 'replace-locked-copy': return c.at_state(m['ph'], copy=True)
    else: raise ValueError(op)
    return c


def hist_build(form, objs, slots, excess, st, case):
    """build a property package in one of the public ways; returns (mixture, thermo or None, actual form, default-thermo flag)"""
    mk = lambda cs: tmo.IdealMixture.from_chemicals(cs, include_excess_energies=True) if excess else None
    if form in ('subset', 'subset-smaller', 'extended') and st['last_th'] is None: form = 'Thermo'
    if form == 'from_chemicals': return tmo.IdealMixture.from_chemicals(objs, include_excess_energies=excess), None, form
    if form == 'from_chemicals-compiled': return tmo.IdealMixture.from_chemicals(tmo.CompiledChemicals(objs), include_excess_energies=excess), None, form
    if form == 'from_chemicals-ids': return tmo.IdealMixture.from_chemicals([c.ID for c in objs], include_excess_energies=excess, cache=True), None, form
    if form == 'Thermo': th = tmo.Thermo(objs, mixture=mk(objs))
    elif form == 'Thermo-Chemicals': th = tmo.Thermo(tmo.Chemicals(objs), mixture=mk(objs))
    elif form == 'Thermo-ids': th = tmo.Thermo([c.ID for c in objs], mixture=mk(objs), cache=True)
    elif form == 'subset': th = st['last_th'].subset(objs)
    elif form == 'subset-smaller': th = st['last_th'].subset(objs)
    elif form == 'extended': th = st['last_th'].extended([st['extra']])
    elif form == 'set_thermo':
        tmo.settings.set_thermo(objs, mixture=mk(objs)); th = tmo.settings.get_thermo()
    elif form == 'set_thermo-ids':
        tmo.settings.set_thermo([c.ID for c in objs], mixture=mk(objs), cache=True); th = tmo.settings.get_thermo()
    else: raise ValueError(form)
    return th.mixture, th, form


def hist_judge(rec, pk, case, tag):
    """every mixture clause of the property for one package against the CURRENT pure-component values of the objects it was built from"""
    mix, chems, th = pk['mix'], pk['chems'], pk['th']
    n = np.array([case['n'][s] for s in pk['slots']], float)
    T, P = case['T'], case['P']
    Rl = tmo.constants.R
    rec.check(bool(mix.include_excess_energies) is bool(pk['excess']), 'excess', f'flag/{tag}',
              f'package built via {pk["form"]} with include_excess_energies={pk["excess"]} (after {pk["after"]}) reports include_excess_energies={mix.include_excess_energies!r}')
    idx = [i for i in range(len(n)) if n[i]]
    if not idx:
        rec.refuse('history: the package holds none of the chemicals present (empty composition): nothing to judge'); return
    for ph in case['phases']:
        try:
            hs = [n[i] * hist_pure(chems[i], 'H', ph, T, P) for i in idx]; cs = [n[i] * hist_pure(chems[i], 'Cn', ph, T, P) for i in idx]; ss = [n[i] * hist_pure(chems[i], 'S', ph, T, P) for i in idx]
            if pk['excess']:
                hs = [h + n[i] * hist_pure(chems[i], 'H_excess', ph, T, P) for h, i in zip(hs, idx)]; ss = [s_ + n[i] * hist_pure(chems[i], 'S_excess', ph, T, P) for s_, i in zip(ss, idx)]
            Hp, Cp, Sp = sum(hs), sum(cs), sum(ss)
            if not all(v == v and abs(v) != float('inf') for v in (Hp, Cp, Sp)): raise ValueError('non-finite pure value')
        except Exception:
            rec.refuse('pure-component value unavailable in a phase after the history (incomplete data): package not judged in that phase'); continue
        try:
            Hm = mix.H(ph, n, T, P); Cm = mix.Cn(ph, n, T); Sm = mix.S(ph, n, T, P)
        except Exception as e:
            rec.exception('mixture-sum', e, what=f'package built via {pk["form"]} after {pk["after"]}: mixture H/Cn/S in phase {ph} raised {type(e).__name__}: {str(e)[:120]} although every pure value evaluates'); continue
        hsc = max([abs(v) for v in hs] + [abs(Hm), 1.0]); csc = max([abs(v) for v in cs] + [abs(Cm), 1e-300]); ssc = max([abs(v) for v in ss] + [abs(Sm), 1.0])
        names = [c.ID for c in chems]
        rec.check(abs(Hm - Hp) <= 1e-12 * hsc, 'mixture-sum', f'H/{tag}', f'package of {names} built via {pk["form"]} after {pk["after"]} (excess={pk["excess"]}): mixture H({ph}) = {Hm!r} but the mole-weighted sum of the current pure values is {Hp!r}',
                  residual=abs(Hm - Hp) / hsc)
        rec.check(abs(Cm - Cp) <= 1e-12 * csc, 'mixture-sum', f'Cn/{tag}', f'package of {names} built via {pk["form"]} after {pk["after"]}: mixture Cn({ph}) = {Cm!r} but the mole-weighted sum of the current pure values is {Cp!r}',
                  residual=abs(Cm - Cp) / csc)
        # entropy: S - sum n_i s_i = -R sum n_i ln x_i (the recorded R-less, mis-signed term is classified under its recorded key)
        x = n[n > 0] / n.sum(); nlnx = float((n[n > 0] * np.log(x)).sum()); D = Sm - Sp; tol = lambda c_: 1e-9 * abs(c_ * nlnx) + 1e-12 * ssc
        if len(x) == 1:
            rec.hit('mix:single-component')
            rec.check(abs(D) <= 1e-12 * ssc, 'mixing-term', f'single-component/{tag}', f'package built via {pk["form"]} after {pk["after"]}: a single component has no mixing term, but mixture S({ph}) = {Sm!r} and n s_i = {Sp!r}')
        elif abs(D + Rl * nlnx) <= tol(Rl): rec.ok('mixing-term', abs(D + Rl * nlnx) / ssc)
        elif abs(D - nlnx) <= tol(1.0) and abs(nlnx) > 1e-6:
            rec.violation('C07/mixing-term/coefficient=+1', f'mixture S - sum n_i s_i = c * sum n_i ln x_i with c = {D / nlnx!r}; the ideal mixing term requires c = -R = {-Rl} (the model adds +sum n_i ln x_i: no R, opposite sign)')
        elif abs(nlnx) > 1e-6 or abs(D) > 1e-9 * ssc:
            rec.violation(f'C07/mixing-term/not-composition-only/{tag}', f'package of {names} built via {pk["form"]} after {pk["after"]} (excess={pk["excess"]}): mixture S({ph}) - sum n_i s_i(current pure values) = {D!r}, '
                                                                         f'which is neither -R sum n_i ln x_i = {-Rl * nlnx!r} nor the recorded +sum n_i ln x_i = {nlnx!r}')
        rec.mark_nontrivial(case_hash((case['names'], pk['form'], pk['after'], pk['slots'], ph, case['n'], T, P)))
        # the stream of the same package (explicit thermo, or the default one for settings.set_thermo)
        if th is not None and ph == case['phases'][0]:
            try:
                kw = {} if pk['default'] and tmo.settings.get_thermo() is th else {'thermo': th}
                a = tmo.Stream(None, phase=ph, T=T, P=P, **kw)
                for c, v in zip(chems, n):
                    if v: a.imol[c.ID] = float(v)
                rec.check(abs(a.H - Hp) <= 1e-11 * hsc and abs(a.C - Cp) <= 1e-11 * csc, 'stream-sum', f'H-C/{tag}', f'stream of a package built via {pk["form"]} after {pk["after"]}: Stream.H = {a.H!r}, Stream.C = {a.C!r} but sum n_i H_i = {Hp!r}, sum n_i Cn_i = {Cp!r}')
                rec.check(abs(a.S - Sm) <= 1e-11 * ssc, 'stream-sum', f'S/{tag}', f'stream of a package built via {pk["form"]} after {pk["after"]}: Stream.S = {a.S!r} but the mixture entropy of the same flows is {Sm!r}')
            except Exception as e:
                rec.exception('stream-sum', e, what=f'stream of a package built via {pk["form"]} after {pk["after"]} raised {type(e).__name__}: {str(e)[:120]}')


def run_hist(case, rec):
    """a history on one set of chemical objects: package built, member data modified through the documented setters / methods, package built again (same objects, permuted, fewer, more,
    replaced object of the same ID, through every public construction path), older packages still alive; every package whose members' functors were not re-created since it was built is judged."""
    rec.hit('history'); rec.hit('hist:src:' + case['src'])
    names = case['names']; k = len(names)
    _hist_count[0] += 1
    uid = f"{case_hash((case['names'], case['refs0'], case['n'], case['T']))[:8]}_{_hist_count[0]}"      # IDs never seen by the chemical cache of this process (names only: nothing judged depends on them)
    try:
        if case['src'] == 'fresh': objs = [tmo.Chemical(nm, phase_ref=r, cache=False) for nm, r in zip(names, case['refs0'])]
        elif case['src'] == 'copy':
            objs = [hist_base(nm).copy(nm) for nm in names]
            for c, r in zip(objs, case['refs0']):
                if r != c.phase_ref: c.phase_ref = r
        else:       # the chemical cache: IDs registered once, every later construction by ID returns the same (modified) objects
            objs = [tmo.Chemical(f'{nm}_{uid}', search_ID=nm, phase_ref=r, cache=True) for nm, r in zip(names, case['refs0'])]
        extra = hist_base(case['extra']).copy(case['extra'])
    except Exception as e:
        rec.exception('construct', e, what=f'history: creating {names} ({case["src"]}) raised {type(e).__name__}: {str(e)[:120]}'); return
    alive = list(objs) + [extra]                       # keeps ids unique
    ver = {id(c): 0 for c in alive}
    st = {'last_th': None, 'extra': extra}
    pkgs = []
    try: prev_default = tmo.settings.get_thermo()
    except Exception: prev_default = None
    try:
        last_op = 'none'
        for si, step in enumerate(case['steps']):
            inplace = False
            for m in step['muts']:
                c = objs[m['i']]
                was_locked = c.locked_state
                try: new = hist_mutate(c, m, case, rec)
                except Exception as e:
                    # the only documented refusal among these operations: at_state on a chemical already locked at ANOTHER phase (TypeError); the generator does not produce it,
                    # a replayed / hand-written history may. Every other raise of a documented setter / method is a failure of that operation (keyed by operation and lock state).
                    if m['op'] in ('at_state', 'replace-locked-copy') and isinstance(e, TypeError) and was_locked and was_locked != m['ph']:
                        rec.refuse('history: at_state on a chemical already locked at another phase (documented TypeError): history not continued'); return
                    ek = exc_key(e)
                    if ek.endswith('@?'): rec.exception('history-op', e)        # raised by the harness's own arithmetic (e.g. a constant the history needs is None): inconclusive, not silent
                    else:
                        rec.violation(f'C07/history-op/{m["op"]}/{"locked" if was_locked else "unlocked"}/exception/{ek}',
                                      f'history ({case["src"]} chemicals): {m["op"]} on {c.ID} ({"locked at " + was_locked if was_locked else "phase_ref=" + str(c.phase_ref)}) raised {type(e).__name__}: {str(e)[:150]}')
                    return
                if new is None:
                    rec.refuse('history: Tm < Tb would not hold after the modification: step skipped'); continue
                rec.ok('history-op')
                rec.hit('hist:op:' + m['op']); last_op = m['op']
                if new is not c:
                    objs[m['i']] = new; alive.append(new); ver[id(new)] = 0; rec.hit('hist:replaced-object')
                elif m['op'] in HIST_REBUILD_OPS: ver[id(c)] += 1
                else: inplace = True
            form = step['build']
            order = step['perm'] if step['perm'] else list(range(k))
            if form == 'subset-smaller': order = [i for i in order if i != step['drop']]
            use = [objs[i] for i in order]
            excess = bool(step['excess']) and form in ('from_chemicals', 'from_chemicals-compiled', 'from_chemicals-ids', 'Thermo', 'Thermo-Chemicals', 'Thermo-ids', 'set_thermo', 'set_thermo-ids')
            built = []
            for which in ('main', 'twin') if step.get('twin') else ('main',):
                f = form if which == 'main' else step['twin']
                try: mix, th, f = hist_build(f, use, order, excess, st, case)
                except Exception as e:
                    rec.exception('construct', e, what=f'history: building a package of {[c.ID for c in use]} via {f} after {last_op} raised {type(e).__name__}: {str(e)[:120]}'); return
                chems = list(th.chemicals) if th is not None else list(use)
                slot_of = {c.ID: i for i, c in enumerate(objs)}; slot_of[extra.ID] = k
                if any(c.ID not in slot_of for c in chems):
                    rec.check(False, 'construct', f'members/{f}', f'package built via {f} from {[c.ID for c in use]} has members {[c.ID for c in chems]}'); return
                pk = {'mix': mix, 'th': th, 'chems': chems, 'slots': [slot_of[c.ID] for c in chems], 'excess': excess if f not in ('subset', 'subset-smaller', 'extended') else False, 'form': f, 'after': last_op,
                      'default': f.startswith('set_thermo'), 'ver': [(c, ver.setdefault(id(c), 0)) for c in chems]}
                for c in chems:
                    if all(c is not a for a in alive): alive.append(c)
                if th is not None: st['last_th'] = th
                same = [q for q in pkgs if len(q['chems']) == len(chems) and all(a is b for a, b in zip(q['chems'], chems)) and q['excess'] == pk['excess']]
                if same and any(ver[id(c)] != v for q in same for c, v in q['ver']): rec.hit('hist:same-objects-rebuilt')       # same objects, same order, same flag as an earlier package, functors re-created in between
                if step['perm'] and order != sorted(order): rec.hit('hist:permuted')
                rec.hit('hist:form:' + f)
                built.append(pk); pkgs.append(pk)
            if step.get('flip') and built:
                # two live packages are independent objects: switching the excess terms of one on/off says nothing about the other
                q = built[-1]
                q['mix'].include_excess_energies = not q['excess']; q['excess'] = not q['excess']; rec.hit('hist:flag-flipped')
            for q in pkgs:
                if any(ver[id(c)] != v for c, v in q['ver']):
                    rec.refuse('history: package built before the free-energy functors of a member were re-created: not judged'); continue
                if any(q is b for b in built): hist_judge(rec, q, case, f'history/built:{hist_family(q["form"])}')
                elif inplace or step.get('flip') or step.get('twin'):
                    rec.hit('hist:live-package'); hist_judge(rec, dict(q, after=f'{q["after"]}, still alive after {last_op}'), case, f'history/live:{hist_family(q["form"])}')
    finally:
        if prev_default is not None:
            try: tmo.settings.set_thermo(prev_default)
            except Exception: pass
    # the pure-component clauses on the chemicals as the history left them
    sub = {'Ts': case['Ts'], 'Ps': [5e4, 1e5, 1e6]}
    for c in objs:
        rec.hit('hist:pure-after-history')
        # the members come from HIST_POOL (all in the pinned table) and every operation of a history keeps a model per phase, Tm, Tb, Hfus and a Hvap model
        check_data_present(c, rec, 'history', f'{c.ID} after the history')
        if c.locked_state: check_locked(c, rec, sub, 'history', expect_model=True)
        else:
            # (all phases count as complete: with those data present H and S evaluate in every phase over the grid - no 'undefined in a phase' refusal in 11277 chemicals of 1200 histories;
            #  the pool has only analytic heat-capacity models, so the probes refuse no phase either, except the liquid finite differences of the spline / quasi-polynomial models)
            judged = check_pure(c, rec, dict(sub, complete={'s': True, 'l': True, 'g': True}), 'history')
            judge_expected(rec, judged, HIST_JUDGED, 'history', f'{c.ID} (phase_ref={c.phase_ref}) after the history')


def gen_hist(rng):
    k = rng.choice([2, 2, 3, 3, 4])
    names = rng.sample(list(HIST_POOL), k + 1); extra = names.pop()
    src = rng.choice(['fresh', 'copy', 'copy', 'ids-cache'])
    refs = [rng.choice('lllgs') for _ in names]; refs0 = list(refs); locked = [None] * k
    steps = []
    for s in range(rng.choice([3, 4, 4, 5])):
        muts = []
        if s:
            for _ in range(rng.choice([1, 1, 2])):
                i = rng.randrange(k)
                op = rng.choice(['phase_ref', 'phase_ref', 'phase_ref', 'at_state', 'Tb', 'Tm', 'Hfus', 'S0', 'reset_free_energies', 'Cn-add_method', 'Hvap-add_method', 'copy_models_from', 'replace-copy', 'replace-locked-copy'])
                if locked[i] and op in ('phase_ref', 'at_state', 'replace-locked-copy'): op = rng.choice(['reset_free_energies', 'Tb', 'Hfus'])
                if src == 'ids-cache' and op.startswith('replace'): op = 'phase_ref' if not locked[i] else 'reset_free_energies'
                m = {'op': op, 'i': i}
                if op in ('phase_ref', 'replace-copy'):
                    m['ref'] = rng.choice([q for q in 'lgs' if q != refs[i]])
                    if not locked[i]: refs[i] = m['ref']
                elif op in ('at_state', 'replace-locked-copy'): m['ph'] = rng.choice('llgs'); locked[i] = refs[i] = m['ph']
                elif op == 'Tb': m['f'] = round(rng.uniform(0.93, 1.05), 4)
                elif op == 'Tm': m['f'] = round(rng.uniform(0.97, 1.08), 4)
                elif op == 'Hfus': m['f'] = round(rng.uniform(0.5, 2.0), 3)
                elif op == 'S0': m['v'] = round(rng.uniform(50, 300), 3)
                elif op == 'Cn-add_method': m['ph'] = locked[i] or rng.choice('slg'); m['co'] = [round(rng.uniform(20, 200), 3), round(rng.uniform(0, 0.3), 4)]
                elif op == 'Hvap-add_method': m['hv'] = round(rng.uniform(1e4, 6e4), 1)
                elif op == 'copy_models_from': m['other'] = rng.choice([q for q in HIST_POOL if q != names[i]]); m['models'] = rng.choice([['Cn'], ['Cn', 'Hvap'], ['Hvap']])
                muts.append(m)
        if s == 0: form = rng.choice(['Thermo', 'Thermo', 'from_chemicals', 'Thermo-Chemicals', 'set_thermo'] + (['Thermo-ids', 'Thermo-ids'] if src == 'ids-cache' else []))
        else: form = rng.choice(list(HIST_OBJECT_FORMS) + ['from_chemicals', 'Thermo'] + (list(HIST_ID_FORMS) * 2 if src == 'ids-cache' else []))
        perm = None
        if rng.random() < 0.3: perm = rng.sample(range(k), k)
        step = {'muts': muts, 'build': form, 'perm': perm, 'excess': rng.random() < 0.25, 'drop': rng.randrange(k)}
        if rng.random() < 0.3:
            step['twin'] = rng.choice(['from_chemicals', 'Thermo']); step['flip'] = rng.random() < 0.6
        steps.append(step)
    n = [0.0 if rng.random() < 0.12 else round(10 ** rng.uniform(-2, 2), 4) for _ in range(k + 1)]
    if sum(1 for v in n[:k] if v) < 1: n[0] = 1.0
    return {'t': 'hist', 'names': names, 'extra': extra, 'src': src, 'refs0': refs0, 'steps': steps, 'n': n, 'T': round(rng.uniform(280, 400), 2), 'P': rng.choice([5e4, 101325., 5e5]),
            'phases': rng.sample(['l', 'g'], 2) + (['s'] if rng.random() < 0.3 else []), 'Ts': [round(T, 3) for T in sorted(rng.uniform(260, 480) for _ in range(4))]}


def gen_cases(rng, tier):
    cases = []
    names = list(DB)
    for name in names:
        for ref in 'lgs':
            Ts = sorted(rng.uniform(260, 480) for _ in range(4))
            cases.append({'t': 'db', 'name': name, 'ref': ref, 'Ts': [round(T, 3) for T in Ts], 'Ps': [5e4, 1e5, 1e6]})
    nsyn = 100 if tier == 'quick' else 600
    for _ in range(nsyn):
        order = rng.choice(['Tm<Tref<Tb', 'Tm<Tb<Tref', 'Tref<Tm<Tb', 'Tm<Tref<Tb', 'Tm<Tb<Tref', 'Tref<Tm<Tb', 'Tb<Tm<Tref', 'Tref<Tb<Tm', 'Tb<Tref<Tm', 'Tref==Tm', 'Tref==Tb'])
        if order == 'Tm<Tref<Tb': Tm, Tb = rng.uniform(150, 290), rng.uniform(310, 500)
        elif order == 'Tm<Tb<Tref': Tm, Tb = rng.uniform(100, 180), rng.uniform(190, 290)
        elif order == 'Tb<Tm<Tref': Tb, Tm = rng.uniform(100, 180), rng.uniform(190, 290)        # sublimating: boils below its melting point
        elif order == 'Tref<Tb<Tm': Tb, Tm = rng.uniform(305, 380), rng.uniform(390, 600)
        elif order == 'Tb<Tref<Tm': Tb, Tm = rng.uniform(150, 290), rng.uniform(310, 500)
        elif order == 'Tref==Tm': Tm, Tb = 298.15, rng.choice([rng.uniform(150, 290), rng.uniform(310, 500)])
        elif order == 'Tref==Tb': Tb, Tm = 298.15, rng.choice([rng.uniform(150, 290), rng.uniform(310, 500)])
        else: Tm, Tb = rng.uniform(305, 380), rng.uniform(390, 600)
        def co():
            k = rng.choice(['const', 'lin', 'quad'])
            return [round(rng.uniform(20, 200), 3), 0.0 if k == 'const' else round(rng.uniform(0, 0.3), 4), 0.0 if k != 'quad' else round(rng.uniform(0, 2e-4), 7)]
        Ts = sorted(rng.uniform(260, 480) for _ in range(4))
        cases.append({'t': 'syn', 'name': rng.choice(['Ethanol', 'Water', 'Octane', 'Acetone', 'Benzene']), 'ref': rng.choice('lgs'), 'order': order, 'Tm': round(Tm, 3), 'Tb': round(Tb, 3),
                      'cn': {'s': co(), 'l': co(), 'g': co()}, 'hvap': round(rng.uniform(1e4, 6e4), 1), 'Ts': [round(T, 3) for T in Ts], 'Ps': [5e4, 1e5, 1e6]})
    nmix = 1000 if tier == 'quick' else 10000
    for _ in range(nmix):
        def comp(): return [0.0 if rng.random() < 0.35 else round(10 ** rng.uniform(-2, 2), 4) for _ in MIX]
        n = comp()
        if sum(1 for v in n if v) < 1: n[0] = 1.0
        case = {'t': 'mix', 'n': n, 'm': comp(), 'phase': rng.choice('lg'), 'T': round(rng.uniform(280, 400), 2), 'P': rng.choice([5e4, 101325., 5e5]), 'k': rng.choice([0.5, 2.0, 1e-3, 1e3])}
        # added forms
        if rng.random() < 0.15: case['phase'] = 's'
        if rng.random() < 0.08:
            case['n'] = [0.0] * len(MIX); case['n'][rng.randrange(len(MIX))] = round(10 ** rng.uniform(-2, 2), 4)          # a single component
        case['P2'] = rng.choice([1.0, 1e3, 2e5, 1e7])
        case['phase2'] = rng.choice([q for q in 'slg' if q != case['phase']])
        if rng.random() < 0.3: case['m2'] = comp()
        if rng.random() < 0.25: case['mk'] = rng.choice([1.0, 0.5, 3.0, 1e-3, 1e3])
        if rng.random() < 0.1: case['empty'] = True
        cases.append(case)
    # phase-locked chemicals: every lock phase of every database chemical, through each way of locking
    for name in names:
        for ph in 'slg':
            Ts = sorted(rng.uniform(260, 480) for _ in range(4))
            cases.append({'t': 'lock', 'name': name, 'ref': rng.choice('lgs'), 'ph': ph, 'how': rng.choice(['at_state-copy', 'at_state', 'constructor']), 'Ts': [round(T, 3) for T in Ts], 'Ps': [5e4, 1e5, 1e6]})
    for _ in range(60 if tier == 'quick' else 600):
        n = [round(10 ** rng.uniform(-2, 2), 4) if rng.random() < 0.8 else 0.0 for _ in range(3)]
        if not any(n): n[2] = 1.0
        cases.append({'t': 'mixlock', 'locked': rng.choice(['Glucose', 'Glycerol', 'N2']), 'lock_phase': None, 'n': n, 'phase': rng.choice('lg'), 'T': round(rng.uniform(280, 400), 2), 'P': rng.choice([5e4, 101325., 5e5])})
        cases[-1]['lock_phase'] = {'Glucose': 's', 'Glycerol': 'l', 'N2': 'g'}[cases[-1]['locked']]
    # reference phase moved through the setter on one object, then copied
    for _ in range(12 if tier == 'quick' else 120):
        refs = [rng.choice('lgs')]
        while len(refs) < 4:
            r = rng.choice('lgs')
            if r != refs[-1]: refs.append(r)
        Ts = sorted(rng.uniform(260, 480) for _ in range(4))
        cases.append({'t': 'cycle', 'name': rng.choice(names), 'refs': refs, 'Ts': [round(T, 3) for T in Ts], 'Ps': [5e4, 1e5, 1e6]})
    # further chemicals of the bundled database, T over each model's whole range, extreme pressures
    pool = wide_pool()
    for _ in range(40 if tier == 'quick' else 400):
        Ts = sorted(rng.uniform(260, 480) for _ in range(4))
        cases.append({'t': 'dbx', 'cas': rng.choice(pool), 'ref': rng.choice('lgs'), 'fr': [round(rng.random(), 4) for _ in range(3)], 'Ts': [round(T, 3) for T in Ts],
                      'Ps': sorted(round(10 ** rng.uniform(0, 8), 2) for _ in range(3))})
    # histories: packages built and re-built around modifications of their member chemicals (generated last: the earlier case streams are unchanged)
    for _ in range(120 if tier == 'quick' else 1200):
        cases.append(gen_hist(rng))
    return cases


_pool = []


def wide_pool():
    """CAS numbers of the heat-capacity table bundled with the data package (sorted: a deterministic list)."""
    if not _pool:
        from chemicals import heat_capacity as hc
        _pool.extend(sorted(str(i) for i in hc.Cp_data_Poling.index))
    return _pool


def run_case(case, rec):
    rec.begin_case(case)
    try:
        {'db': run_db, 'syn': run_synth, 'mix': run_mix, 'lock': run_lock, 'mixlock': run_mixlock, 'cycle': run_cycle, 'dbx': run_dbx, 'hist': run_hist}[case['t']](case, rec)
    except Exception as e:
        rec.exception('harness', e, what=f'harness error in {case["t"]}: {type(e).__name__}: {e}')


def replay(case, rec):
    run_case(case, rec)


def run(rec, rng, tier, shard, nshards):
    cases = gen_cases(rng, tier)
    for i, case in enumerate(cases):
        if case['t'] == 'db' and i % nshards != shard: continue      # the database grid is partitioned over the shards
        run_case(case, rec)
        if i % 97 == 0: rec.sample(case)
