"""C15 — liquid-liquid and solid-liquid splits meet their equilibrium and labelling rules.

Monitor: the two liquid rows (and the solid row) of the real stream are recorded after each lle / sle call; activities
x_i*gamma_i are recomputed from thermo.Gamma, and results after call histories are compared with a fresh solver on a
fresh stream.
"""
import warnings
import numpy as np
import thermosteam as tmo
from vt.core import case_hash

PID = 'C15'
RULE = ('LLE: mixtures of 2-5 chemicals containing a partially miscible pair (water with octane / hexane / toluene / butanol / octanol / ethyl acetate, plus alcohols/acetone), T 285-355 K, methods pseudo equilibrium / shgo / '
        'differential evolution, scale factors 10^U(-3,3), every top chemical, histories of 1-4 earlier calls at other temperatures (>= 2 K away, up and down) or compositions on the same stream followed by the judged call with '
        'use_cache True and False, compared with a fresh solver on a fresh stream. SLE: glucose / tetradecanol / acetic acid in 1-3 solvents, T 250-450 K, given and computed solubility, pure solute above / below Tm. '
        'added by the coverage audit - LLE: compositions in which the pair is not dominant (10^U(-2,2) each), water-free pairs (methanol with hexane / heptane), package members at zero flow, feeds pre-split over l / L; histories whose '
        'last call is at the judged point, within / just outside the cache tolerances (1e-3 K, 1e-5) or at another scale (the cache-hit branch), with the judged feed re-pooled over l / L, with chemicals absent in earlier calls '
        '(remembered coefficients must be dropped: clause history-reset), another top chemical or method per step; call forms P=, single_loop=True, update=False (returned K and phase fraction). SLE: solute anywhere in the package, '
        'a second solid-capable chemical holding solid and dissolved material, solvents at zero flow (pure solute inside a package), H= and P= forms, user activity coefficient with the ideal package, T at and next to Tm. '
        'added in round 5 - SLE: the computed solubility observed where the solver RETURNS it (the value handed back by the solubility solve of the judged call), not only where it is applied to the rows, and judged against the rows '
        '(clause sle:solubility/computed-returned; on every existing SLE case too); for ideal packages (Thermo(Gamma=Ideal...), thermo.ideal()) the eutectic solubility from the public chemical data with the user activity '
        'coefficient as an independent bound (eutectic-model); case type sle3: ramps of 1-4 calls on one solver WITHOUT resetting the rows (other T relative to Tm, T / H specification, given / computed / boundary solubilities '
        '0, 1, 1e-9, just enough to dissolve all, solvent amounts changed or removed, an absent package member added, activity coefficient changed between calls), every step judged and compared with a fresh solver from the same rows; '
        'object kinds MultiStream.sle, Stream.sle (single-phase stream converted) and equilibrium.SLE on a MolarFlowIndexer (activity_coefficient by constructor); packages Dortmund / UNIFAC / ideal Gamma / IdealThermo. '
        'oracle audit (round 6) - LLE: equal activities judged per component (|a_l - a_L| / max(a_l, a_L) of every chemical present in both liquids); a result with one liquid (or two rows of one composition) is judged under '
        'clause no-split against an independent stability certificate (own successive substitution with th.Gamma: a two-liquid state of equal activities whose Gibbs energy is lower than that of the homogeneous feed); the cache-hit class of a '
        'history is decided from the generated inputs alone (last remembered call within 1e-3 K and 1e-5 in every mole fraction), not from the solver\'s attributes; violations of the default method carry the size class of the deviation '
        '(and the Gibbs energy of the returned split relative to the feed / to the independent equilibrium) in the key. SLE: in every computed, non-pure call both observation points (solubility solve, solubility applied) must have been '
        'passed (otherwise the run is inconclusive); with an activity model, T given and solid left the liquid must be a fixed point of the eutectic relation with the package\'s own activity coefficient (clause sle:solubility/eutectic-model/activity-model); '
        'a raise is counted-not-judged only for FloatingPointError (SLE: only when no liquid other than the solute is present), with a ceiling per shard. '
        'non-trivial = two non-empty liquid phases (LLE) / solute partly dissolved or a pure solute (SLE); distinct = hash of the case')
MIN_NONTRIVIAL = {'quick': 150, 'thorough': 3000}
ASSUMPTIONS = ['equal-activity bound: 1e-3 for every method, per component (relative to the larger of the two activities of that component; before round 6: relative to the largest activity of all); larger deviations of the Gibbs-minimising methods are classified by mechanism (component at the starting midpoint / Gibbs energy within 1e-6 of the polished minimum / beyond it) and reported under those keys', 'labels l/L are compared up to a swap when no top chemical is named',
               'equal-activity, default method: a mismatch is filed under the recorded finding (coefficients never iterated) only when the returned split is, within 1e-5 of the feed, the flash at the method\'s documented starting guess as recomputed by the harness from the inputs (otherwise suffix /not-the-starting-guess-flash, unrecorded)',
               'scale / history / call forms of the Gibbs-minimising methods: a difference is filed under the recorded trivial-solution findings when a compared result has two rows of one composition (1e-6 / 1e-4 in mole fraction) or when every compared result divides the pooled liquid at a Gibbs-energy change within the objective tolerance (1e-6 RT per mole of feed) with no mole fraction differing by more than 1e-2 between its rows',
               'history, Gibbs-minimising methods, cache-hit class with a remembered point that differs from the judged one (within 1e-3 K and 1e-5 in every mole fraction): the result may differ from the fresh solver by more than the method bound (up to 1e-3 of the feed) when it is, within 1e-7 of the feed, the flash of the judged feed at the coefficients of the rows the last earlier call left (the documented resolution of the cache)',
               'no-split: a one-liquid result is reported only when the independent certificate lowers the Gibbs energy of mixing by more than 1e-4 RT per mole of feed (100 times the objective tolerance of the Gibbs-minimising methods); no certificate found = not shown unstable = held',
               'eutectic-model/activity-model: |x - eutectic(T, gamma_solute(x))| <= 1e-4 x + 2e-5 (the solubility iteration stops on a change of x below 1e-6)',
               'a probe (SLE._solve_x / SLE._update_solubility) that is not passed in a computed non-pure call, too few two-liquid results per LLE case or too many raises per shard make the run inconclusive (harness error), not violated']
PAIRS = [('Water', 'Octane'), ('Water', 'Hexane'), ('Water', 'Toluene'), ('Water', 'Butanol'), ('Water', 'Octanol'), ('Water', 'EthylAcetate')]
EXTRA = ('Ethanol', 'Methanol', 'Acetone', 'Propanol', 'AceticAcid')
_th = {}


def required(tier):
    return ['equal-activity', 'scale', 'top-chemical', 'history', 'history:use_cache', 'history:no-cache', 'history:T-decrease', 'sle:solute-only', 'sle:solubility', 'sle:pure', 'sle:gamma=ideal', 'sle:solid-in-feed', 'sle:history', 'sle:history:pure-then-solvent', 'method:shgo', 'method:pseudo equilibrium',
            # coverage audit
            'method:differential evolution', 'history:cache-hit', 'history:last-call-same', 'history:last-call-within', 'history:last-call-outside', 'history:last-call-scaled', 'history:last-call-same-T-other-z', 'history:query(update=False)', 'history:re-pooled', 'history:chemical-set-changed',
            'history-reset', 'history:top-changed', 'history:method-switched', 'composition:wide', 'composition:water-free', 'composition:zero-flow-member', 'feed:pre-split', 'pre-split', 'form:P', 'form:single_loop',
            'form:update=False', 'call-form', 'sle2', 'sle:spec=H', 'sle:P-given', 'sle:activity_coefficient', 'sle:solute-not-first', 'sle:second-solute-solid', 'sle:pure-in-package', 'sle:pure:next-to-Tm',
            # round 5
            'sle:computed-returned', 'sle:computed-returned:ideal-package', 'sle:computed-returned:activity-model', 'sle:eutectic-model', 'sle:eutectic-model:activity_coefficient', 'sle3', 'sle3:ramp', 'sle3:pkg=default', 'sle3:pkg=unifac',
            'sle3:pkg=ideal-gamma', 'sle3:pkg=ideal()', 'sle3:obj=multistream', 'sle3:obj=stream', 'sle3:obj=indexer', 'sle3:spec=H', 'sle3:given', 'sle3:given-boundary', 'sle3:history', 'sle3:computed-after-given', 'sle3:absent-member',
            'sle3:act-changed', 'sle3:act-by-constructor', 'sle3:solvents-changed', 'sle3:member-added', 'sle3:no-reset', 'sle3:supersaturated-start',
            # round 6 (oracle audit)
            'no-split', 'lle:one-liquid', 'lle:certificate-searched', 'equal-activity:per-component', 'equal-activity:pseudo-equilibrium:gibbs-classified', 'history:class-from-inputs', 'history:method=pseudo equilibrium', 'history:method=shgo',
            'scale:method=pseudo equilibrium', 'scale:method=shgo', 'history:last-call-near', 'sle:probes-reached', 'sle:fixed-point-model', 'sle:fixed-point-model:sle', 'sle:fixed-point-model:sle2', 'sle:fixed-point-model:sle3', 'lle:floor-checked', 'refusal-ceiling-checked']


def thermo(ids, gamma=None):
    k = (tuple(ids), gamma)
    if k not in _th:
        kw = {'Gamma': tmo.equilibrium.IdealActivityCoefficients} if gamma == 'ideal' else {}
        _th[k] = tmo.Thermo(tmo.Chemicals(list(ids), cache=True), **kw)
    return _th[k]


def gen_sle(rng):
    solute = rng.choice(['Glucose', 'Tetradecanol', 'AceticAcid'])
    solv = rng.sample(['Water', 'Ethanol', 'Methanol', 'Octane'], rng.randrange(0, 4))
    ids = [solute] + solv
    flows = [round(10 ** rng.uniform(-2, 2), 4) for _ in ids]
    r = rng.random()
    if r < 0.35: sol = None
    elif r < 0.6: sol = round(rng.random() * 0.6, 4)
    else:
        # around the solubility that is just enough to dissolve all of the solute (the boundary between 'solid remains' and 'all dissolved')
        S = sum(flows[1:]); m = flows[0]
        sol = round(min(0.999, m / (S + m) * rng.uniform(0.6, 1.6)), 6) if S else round(rng.random() * 0.6, 4)
    return {'t': 'sle', 'ids': ids, 'flows': flows, 'T': round(rng.uniform(250, 450), 2), 'dist': rng.choice([0.0, 1.0, round(rng.random(), 3), round(rng.random(), 3)]),
            'solubility': sol, 'prior': rng.random() < 0.4, 'gamma': rng.choice([None, None, 'ideal']),
            # earlier calls on the same stream (and therefore the same remembered solver): other solvent amounts incl. none at all (pure solute), other T, given / computed solubility
            'shist': [{'mult': [rng.choice([0.0, 0.0, 1.0, round(rng.uniform(0.2, 3), 3)]) for _ in solv], 'T': round(rng.uniform(250, 450), 2),
                       'sol': rng.choice([None, None, round(rng.random() * 0.6, 4)])} for _ in range(rng.choice([0, 0, 1, 2, 3]))]}


def gen_case(rng):
    if rng.random() < 0.45:
        return gen_sle(rng)
        solute = rng.choice(['Glucose', 'Tetradecanol', 'AceticAcid'])
        solv = rng.sample(['Water', 'Ethanol', 'Methanol', 'Octane'], rng.randrange(0, 4))
        ids = [solute] + solv
        return {'t': 'sle', 'ids': ids, 'flows': [round(10 ** rng.uniform(-2, 2), 4) for _ in ids], 'T': round(rng.uniform(250, 450), 2), 'dist': round(rng.random(), 3),
                'solubility': rng.choice([None, None, round(rng.random() * 0.6, 4)]), 'prior': rng.random() < 0.4}
    base = rng.choice(PAIRS)
    extra = rng.sample([e for e in EXTRA], rng.randrange(0, 4))
    ids = list(base) + extra
    flows = [round(10 ** rng.uniform(-0.5, 1.5), 4) for _ in ids]
    flows[0] = round(10 ** rng.uniform(0.3, 1.5), 4); flows[1] = round(10 ** rng.uniform(0.3, 1.5), 4)     # the immiscible pair dominates
    for k in range(2, len(ids)): flows[k] = round(flows[k] * 0.1, 5)
    hist = []
    for _ in range(rng.randrange(0, 5)):
        hist.append({'dT': rng.choice([-1, 1]) * round(rng.uniform(2, 40), 2), 'mult': [round(rng.uniform(0.3, 3), 3) for _ in ids] if rng.random() < 0.5 else None})
    c = {'t': 'lle', 'ids': ids, 'flows': flows, 'T': round(rng.uniform(285, 355), 2), 'method': rng.choices(['pseudo equilibrium', 'shgo', 'differential evolution'], [10, 3, 0.5])[0],
         'k': round(10 ** rng.uniform(-3, 3), 6), 'top': rng.choice([None] + ids[:2] + ids), 'hist': hist, 'use_cache': rng.random() < 0.5}
    return more_lle(rng, c)


PAIRS2 = PAIRS + [('Methanol', 'Hexane'), ('Methanol', 'Heptane')]       # water-free partially miscible pairs


def more_lle(rng, c):
    """coverage audit: other compositions (pair not dominant, water-free pairs, zero-flow members, feed pre-split over l / L), histories that end on / next to the judged point
    (the cache-hit branch), that change the chemical set, the top chemical or the method between calls, and the other call forms (P, single_loop, update=False)"""
    ids = c['ids']
    if rng.random() < 0.3:
        base = rng.choice(PAIRS2)
        extra = rng.sample([e for e in EXTRA + ('Water',) if e not in base], rng.randrange(0, 4))
        ids = c['ids'] = list(base) + extra
        c['flows'] = [round(10 ** rng.uniform(-2, 2), 4) for _ in ids]
        for k in range(2, len(ids)):
            if rng.random() < 0.15: c['flows'][k] = 0.0          # a member of the package that is not in the feed
        c['comp'] = 'wide'
        c['top'] = rng.choice([None] + ids)
        c['hist'] = [dict(h, mult=([round(rng.uniform(0.3, 3), 3) for _ in ids] if h['mult'] else None)) for h in c['hist']]
    n = len(ids)
    c['presplit'] = [rng.choice([0.0, 1.0, round(rng.random(), 3)]) for _ in ids] if rng.random() < 0.5 else None
    r = rng.random()
    if r < 0.45:
        # the last earlier call is on / next to the judged point: exactly the same, within the cache tolerances (1e-3 K, 1e-5 in mole fraction), just outside them, or the same composition at another scale
        # ('near', round 6: the same feed 0.05 - 1.5 K away - far outside the 1e-3 K tolerance, but close enough that a solver comparing sloppily would reuse its coefficients, and far enough for the split to differ)
        kind = rng.choice(['same', 'same', 'within', 'within', 'outside', 'scaled', 'same-T-other-z', 'same-T-other-z', 'near'])
        h = {'kind': kind, 'dT': 0.0, 'mult': None}
        if kind == 'near':
            h['dT'] = rng.choice([-1, 1]) * round(rng.uniform(0.05, 1.5), 3)
            if rng.random() < 0.6: c['method'] = rng.choice(['shgo', 'shgo', 'differential evolution'])     # the default method is masked by its recorded finding
        if kind == 'within': h['dT'] = rng.choice([0.0, 5e-4, -5e-4]); h['mult'] = [1 + rng.choice([0.0, 5e-6, -5e-6]) for _ in ids]
        elif kind == 'outside': h['dT'] = rng.choice([2e-3, -2e-3, 0.0]); h['mult'] = [1 + rng.choice([2e-5, -2e-5]) for _ in ids] if (h['dT'] == 0.0 or rng.random() < 0.5) else None
        elif kind == 'scaled': h['k'] = round(10 ** rng.uniform(-2, 2), 5)
        elif kind == 'same-T-other-z':          # the remembered temperature matches, the remembered composition does not: the coefficients must not be reused
            h['dT'] = rng.choice([0.0, 5e-4, -5e-4]); h['mult'] = [round(rng.uniform(0.3, 3), 3) for _ in ids]
            if rng.random() < 0.6: c['method'] = rng.choice(['shgo', 'shgo', 'differential evolution'])     # the default method is masked by its recorded finding
            c['use_cache'] = True
        c['hist'] = c['hist'][:3] + [h]
        if kind in ('same', 'within') and rng.random() < 0.4:
            # ... followed by a pure query (update=False) at another temperature or composition: the judged call must still not see the query's coefficients
            c['hist'].append({'kind': 'then-query', 'query': True, 'dT': rng.choice([-1, 1]) * round(rng.uniform(10, 45), 2), 'mult': ([round(rng.uniform(0.3, 3), 3) for _ in ids] if rng.random() < 0.4 else None)})
            c['use_cache'] = True
            if rng.random() < 0.5: c['method'] = rng.choice(['shgo', 'shgo', 'differential evolution'])
        c['use_cache'] = rng.random() < 0.75
        c['repool'] = [rng.choice([0.0, 1.0, round(rng.random(), 3)]) for _ in ids] if rng.random() < 0.5 else None     # the judged feed distributed differently over l / L
    elif r < 0.7 and c['hist']:
        # earlier calls that differ in which chemicals are present, in the top chemical, in the method
        for h in c['hist']:
            if rng.random() < 0.5:
                m = h['mult'] or [1.0] * n
                z = rng.randrange(n); h['mult'] = [0.0 if j == z else v for j, v in enumerate(m)]
            if rng.random() < 0.4: h['top'] = rng.choice([None] + ids)
            if rng.random() < 0.3: h['method'] = rng.choice(['pseudo equilibrium', 'shgo'])
    c['forms'] = {'single_loop': rng.random() < 0.35, 'P': rng.choice([None, None, round(10 ** rng.uniform(4.5, 6), 1)]), 'update_false': rng.random() < 0.3}
    return c


NUMERIC = (FloatingPointError,)


def numeric_failure(e):
    # C15 speaks about calculations that return; a numerical failure inside a solver is counted, not judged - but only the type the solvers are known to end in (numpy's
    # invalid / divide set to 'raise' by the library: FloatingPointError); every other raise (ValueError, RuntimeError, LinAlgError, programming errors ...) is reported.
    # The counted raises have a ceiling per shard (see ceilings()).
    return isinstance(e, NUMERIC)


def refusal(rec, where, e):
    """count a tolerated raise by where it happened and by the library function it came from (mechanism, not input)"""
    from vt.core import exc_key
    rec.refuse(f'{where}: {exc_key(e)}')
    rec.hit('raised:' + where.split(' ')[0])


# ---------------------------------------------------------------------------------------------------------------------------------------------------------
# independent models (nothing below calls the solvers under test; the only library objects used are the activity-coefficient functions of the property package)

_G = {}


def gamma_of(th):
    k = id(th)
    if k not in _G: _G[k] = (th, th.Gamma(th.chemicals))
    return _G[k][1]


def activities(G, n, T):
    x = n / n.sum()
    return x * G(x.copy(), T)


def gibbs_mix(G, n, T):
    """Gibbs energy of mixing / RT of one liquid holding the amounts n: sum n_i ln(x_i gamma_i)"""
    if n.sum() <= 0: return 0.0
    a = activities(G, n, T); m = n > 0
    return float((n[m] * np.log(a[m])).sum())


def activity_mismatch(G, l, L, T):
    """(per component, relative to the larger activity of that component; relative to the largest activity of all [the form used before round 6]) over the chemicals present in both liquids"""
    xl = l / l.sum(); xL = L / L.sum()
    al = xl * G(xl.copy(), T); aL = xL * G(xL.copy(), T)
    m = (xl >= 1e-8) & (xL >= 1e-8)
    if not m.any(): return 0.0, 0.0, al, aL
    d = np.abs(al - aL)[m]
    return float((d / np.maximum(al, aL)[m]).max()), float(d.max() / max(al[m].max(), aL[m].max())), al, aL


def size_class(dev):
    return '<1e-2' if dev < 1e-2 else '<1e-1' if dev < 1e-1 else '<0.5' if dev < 0.5 else '>=0.5'


def rachford_rice(z, K):
    """fraction of the K-enriched liquid in (0, 1) by bisection; None when the balance has no root inside"""
    m = z > 0
    z = z[m]; K = K[m]
    f = lambda p: float((z * (K - 1) / (1 + p * (K - 1))).sum())
    if not (f(0.0) > 0 and f(1.0) < 0): return None
    lo, hi = 0.0, 1.0
    for _ in range(100):
        mid = 0.5 * (lo + hi)
        if f(mid) > 0: lo = mid
        else: hi = mid
        if hi - lo < 1e-15: break
    return 0.5 * (lo + hi)


def own_lle(G, z, T, a, b, iters=300, tol=1e-10):
    """successive substitution K <- gamma(x) / gamma(y) from a guess with chemical a concentrated in one liquid and b in the other; (l, L) per mole of feed or None"""
    x = z.copy(); y = z.copy(); x[a] = 0.99; y[a] = 1e-3; x[b] = 1e-3; y[b] = 0.99
    x /= x.sum(); y /= y.sum()
    m = z > 0
    K = G(x.copy(), T) / G(y.copy(), T)
    for _ in range(iters):
        phi = rachford_rice(z, K)
        if phi is None: return None
        x = z / (1 + phi * (K - 1)); y = K * x
        x = x / x.sum(); y = y / y.sum()
        Kn = G(x.copy(), T) / G(y.copy(), T)
        if not np.isfinite(Kn[m]).all() or (Kn[m] <= 0).any(): return None
        d = float(np.abs(np.log(Kn[m]) - np.log(K[m])).max())
        K = Kn
        if d < tol:
            phi = rachford_rice(z, K)
            if phi is None: return None
            x = z / (1 + phi * (K - 1)); y = K * x
            return x * (1 - phi), y * phi
    return None


def split_certificate(rec, th, z, T):
    """independent evidence that the feed z (mole fractions, zeros allowed) is not one stable liquid: a two-liquid state with equal activities (found by own_lle from the two
    chemicals heaviest by mass and from the first two of the case) whose Gibbs energy of mixing is lower than that of the homogeneous feed.
    returns (decrease per mole of feed in RT, l, L) of the best state found, or None (no certificate: NOT a proof of stability)"""
    G = gamma_of(th)
    rec.hit('lle:certificate-searched')
    try:
        with np.errstate(all='ignore'):
            order = np.argsort(z * th.chemicals.MW)
            pairs = [(int(order[-1]), int(order[-2]))]
            if set(pairs[0]) != {0, 1}: pairs.append((0, 1))
            Gf = gibbs_mix(G, z, T)
            best = None
            for a, b in pairs:
                if z[a] <= 0 or z[b] <= 0: continue
                r = own_lle(G, z, T, a, b)
                if r is None: continue
                l, L = r
                if not (l.sum() > 0 and L.sum() > 0) or np.abs(l / l.sum() - L / L.sum()).max() < 1e-3: continue
                if activity_mismatch(G, l, L, T)[0] > 1e-6: continue
                d = Gf - (gibbs_mix(G, l, T) + gibbs_mix(G, L, T))
                if d == d and (best is None or d > best[0]): best = (float(d), l, L)
        if best is not None: rec.hit('lle:certificate-found')
        return best
    except (FloatingPointError, ZeroDivisionError):
        rec.hit('lle:certificate-search-failed')
        return None


def guess_flash(th, G, z, T):
    """the recorded mechanism of the default method, modelled from the inputs alone: the flash of the feed z (mole fractions, zeros allowed) at the partition coefficients of the
    method's documented starting guess (of the chemicals present, the heaviest by mass at 0.99 in one liquid and 1e-3 in the other, the second heaviest the other way round, the rest at
    their feed fractions; K = gamma(second liquid) / gamma(first liquid)), phase fraction by the harness's own bisection.  A fresh solver whose partition coefficients are never
    iterated returns exactly this state (600 of 600 generated cases agree to 1e-15 of the feed).  returns (l, L) per mole of feed up to the labels, or None (no root inside (0, 1))"""
    m = z > 0
    if m.sum() < 2: return None
    zz = z[m]; order = np.argsort(zz * th.chemicals.MW[m]); a = order[-1]; b = order[-2]
    x = zz.copy(); y = zz.copy(); x[a] = 0.99; y[a] = 1e-3; x[b] = 1e-3; y[b] = 0.99
    x /= x.sum(); y /= y.sum()
    X = np.zeros_like(z); Y = np.zeros_like(z); X[m] = x; Y[m] = y
    K = np.where(m, G(Y.copy(), T) / G(X.copy(), T), 1.0)
    if not np.isfinite(K).all(): return None
    phi = rachford_rice(z, K)
    if phi is None: return None
    L = z / (1 + phi * (K - 1)) * (1 - phi)
    return z - L, L


def is_guess_flash(th, G, z, T, l, L, tol=1e-5):
    """the returned split (l, L per mole of feed) is the flash at the starting-guess coefficients, up to the labels (tol: the library's phase-fraction solve stops on a bracket of 1e-6)"""
    try:
        with np.errstate(all='ignore'):
            gf = guess_flash(th, G, z, T)
    except (FloatingPointError, ZeroDivisionError): return False
    if gf is None: return False
    d = min(max(np.abs(gf[0] - l).max(), np.abs(gf[1] - L).max()), max(np.abs(gf[1] - l).max(), np.abs(gf[0] - L).max()))
    return bool(d <= tol)


def remembered_flash(rem, flows):
    """what reuse of remembered coefficients means, modelled: the flash of the judged feed (flows) at K = x_L / x_l of the two rows the last earlier call left on the stream (rem: the
    library's own result at the remembered point), phase fraction by the harness's own bisection.  returns {'l', 'L'} in the units of flows, or None (a row empty, a chemical of the
    feed missing from a row, no root inside (0, 1))"""
    l, L = rem['l'], rem['L']
    m = flows > 0
    if not (l.sum() > 0 and L.sum() > 0) or (l[m] <= 0).any() or (L[m] <= 0).any(): return None
    K = np.ones_like(flows); K[m] = (L[m] / L.sum()) / (l[m] / l.sum())
    F = flows.sum(); z = flows / F
    phi = rachford_rice(z, K)
    if phi is None: return None
    x = z / (1 + phi * (K - 1))
    return {'l': x * (1 - phi) * F, 'L': K * x * phi * F}


def same_composition(r, tol):
    l, L = r['l'], r['L']
    if not (l.sum() > 0 and L.sum() > 0): return False
    return bool(np.abs(l / l.sum() - L / L.sum()).max() <= tol)


def flat_objective(G, r, T, tol=1e-6, xtol=1e-2):
    """the two rows are a homogeneous liquid divided at the resolution of the Gibbs-minimising methods: dividing the pooled material that way changes its Gibbs energy of mixing by no
    more than the objective tolerance of those methods (f_tol = tol = 1e-6 RT per mole of feed, the quantity they minimise; computed here from the package's activity coefficients),
    and no mole fraction differs by more than xtol between the rows (guard: a real second liquid that is merely small is not filed here)"""
    l, L = r['l'], r['L']
    if not same_composition(r, xtol): return False
    F = l.sum() + L.sum()
    with np.errstate(all='ignore'):
        d = gibbs_mix(G, l / F, T) + gibbs_mix(G, L / F, T) - gibbs_mix(G, (l + L) / F, T)
    return bool(abs(d) <= tol)


def trivial(r):
    """both liquid rows hold material of one and the same composition (the 'trivial solution': a homogeneous liquid divided arbitrarily)"""
    return same_composition(r, 1e-6)


def trivial_class(*results, G=None, T=None):
    """key suffix for a difference that goes back to the trivial solution: '/trivial-solution' (mole fractions of the two rows equal within 1e-6, as before round 6) or
    '/near-trivial-solution' (within 1e-4: the Gibbs-minimising methods stop on the objective, which is flat along the trivial ridge - all K within 1e-3 of 1) or, for the
    Gibbs-minimising methods only (G, T given; thorough run 11: 11 witnesses whose rows differ by 1.1e-4 .. 2.2e-3 in mole fraction, just past the 1e-4 above),
    '/flat-objective-near-trivial-solution': EVERY one of the compared results is a homogeneous liquid divided at the resolution of the objective (flat_objective: Gibbs energy of mixing
    within f_tol = 1e-6 RT per mole of feed of that of the pooled liquid; witnesses: 5e-9 .. 2.4e-8) - the mechanism itself, measured, instead of a wider composition bound"""
    if any(trivial(r) for r in results): return '/trivial-solution'
    if any(same_composition(r, 1e-4) for r in results): return '/near-trivial-solution'
    if G is not None and all(flat_objective(G, r, T) for r in results): return '/flat-objective-near-trivial-solution'
    return ''


def free_labels(ids, flows, top):
    """which liquid is called 'L' is only determined when a top chemical is named AND present in the feed (an absent one has mass fraction 0 in both liquids)"""
    return top is None or not flows[ids.index(top)] > 0


def gibbs_gap(th, ids, z, L, T):
    """Gibbs energy (per mole of feed; computed from the package's activity coefficients by gibbs_mix, not by the solver's objective function) of the returned split minus that of
    the nearest local minimum found by polishing it with Nelder-Mead."""
    from scipy.optimize import minimize
    G = gamma_of(th)
    z = np.asarray(z, float)
    def f(x):
        x = np.clip(np.asarray(x, float), 0, z)
        with np.errstate(all='ignore'):
            v = gibbs_mix(G, x, T) + gibbs_mix(G, z - x, T)
        return v if v == v else 1e300
    g0 = f(L)
    res = minimize(f, L, method='Nelder-Mead', bounds=[(0, zi) for zi in z], options=dict(xatol=1e-12, fatol=1e-14, maxiter=20000, maxfev=40000))
    return g0 - float(res.fun)


def rows(s):
    return {p: s.imol[p].to_array().copy() for p in s.phases}


def fresh_lle(th, ids, flows, T, method, top, presplit=None, **kw):
    s = tmo.MultiStream(None, phases=('L', 'l'), T=T, thermo=th)
    for j, (i, v) in enumerate(zip(ids, flows)):
        if not v: continue
        if presplit and presplit[j]:
            s.imol['L', i] = v * presplit[j]; s.imol['l', i] = v - v * presplit[j]
        else: s.imol['l', i] = v
    lle = s.lle; lle.method = method
    lle(T, top_chemical=top, **kw)
    return s


def run_lle(case, rec):
    ids = case['ids']; th = thermo(ids); tmo.settings.set_thermo(th)
    T = case['T']; method = case['method']; top = case['top']
    flows = np.array(case['flows'], float)
    rec.hit('method:' + method)
    mtag = 'method=' + method
    if case.get('comp'): rec.hit('composition:' + case['comp'])
    if any(v == 0 for v in case['flows']): rec.hit('composition:zero-flow-member')
    if 'Water' not in [i for i, v in zip(ids, case['flows']) if v]: rec.hit('composition:water-free')
    rec.hit('lle-case')
    try:
        ref = fresh_lle(th, ids, flows, T, method, top)
    except Exception as e:
        if numeric_failure(e): refusal(rec, 'lle', e); return
        rec.exception('lle', e, what=f'lle({method}) on {ids} raised {type(e).__name__}: {str(e)[:140]}'); return
    r = rows(ref)
    l, L = r['l'], r['L']
    F = flows.sum()
    two = l.sum() > 1e-9 * F and L.sum() > 1e-9 * F
    G = gamma_of(th)
    # a result that is one liquid - a single non-empty row, or two rows of one and the same composition - is not judged by the two-liquid clauses: it is judged here, against an
    # independent certificate that the feed does split (a two-liquid state of equal activities with a lower Gibbs energy than the homogeneous feed)
    one_composition = bool(two and same_composition(r, 1e-4))
    if not two or one_composition:
        rec.hit('lle:one-liquid' if not two else 'lle:two-rows-of-one-composition')
        cert = split_certificate(rec, th, flows / F, T)
        dG = cert[0] if cert else 0.0
        rec.check(dG <= 1e-4, 'no-split', mtag + ('/one-liquid' if not two else '/two-rows-of-one-composition'),
                  f'lle({method}) at T={T} returns ' + ('one liquid' if not two else 'two liquids of one and the same composition') + f' for a feed that splits: the two-liquid state l={None if not cert else cert[1].tolist()}, '
                  f'L={None if not cert else cert[2].tolist()} (per mole of feed) has equal activities and a Gibbs energy of mixing lower than the homogeneous feed by {dG:.3g} RT per mole of feed (ids={ids}, feed={flows.tolist()})', residual=dG)
    # conservation and sign are C03's; here: equal activities
    if two:
        rec.hit('lle:two-liquids')
        with np.errstate(all='ignore'):
            dev, dev_all, al, aL = activity_mismatch(G, l, L, T)
        rec.hit('equal-activity:per-component')
        gibbs = method in ('shgo', 'differential evolution')
        bound = 1e-3
        sfx = ''
        if dev > bound and gibbs:
            # only the per-component form (new in round 6) fails: the mismatch sits in a component whose activity is small against the largest one
            if dev_all <= bound: sfx = '/minor-component'
            # mechanism of the mismatch, by what can be observed on the result:
            #  - a chemical sits exactly at the optimiser's starting point (half of it in each liquid): the optimiser never moved that variable;
            #  - otherwise the Gibbs energy of the returned split (the solver's objective, per mole of feed) is compared with the minimum obtained by
            #    polishing it: within the configured tolerance (f_tol / tol = 1e-6) the optimiser stopped where it was told to, although the
            #    activities (of components that barely move the objective) still differ; beyond it the optimiser stopped early.
            frac = L / (l + L + 1e-300)
            if any(flows[k_] > 0 and abs(frac[k_] - 0.5) <= 1e-6 for k_ in range(len(ids))): sfx += '/component-left-at-midpoint'
            else:
                gap = gibbs_gap(th, ids, flows / F, L / F, T)
                rec.hit('gibbs-gap-evaluated')
                # the optimisers stop on the CHANGE of the objective falling below 1e-6, which leaves the distance to the minimum within a small multiple of it
                sfx += '/within-objective-tolerance' if gap <= 1e-5 else '/gibbs-gap>1e-5'
        elif dev > bound:
            # the default method (recorded finding: its partition coefficients are never iterated): the size class of the mismatch and the Gibbs energy of the returned split against the
            # homogeneous feed and against the independent equilibrium go into the key, so that the recorded finding is a distribution over classes, not a blanket
            sfx = '/dev' + size_class(dev)
            with np.errstate(all='ignore'):
                Gf = gibbs_mix(G, flows / F, T); Gs = gibbs_mix(G, l / F, T) + gibbs_mix(G, L / F, T)
            cert = split_certificate(rec, th, flows / F, T)
            Gref = Gf - max(cert[0], 0.0) if cert else Gf
            rec.hit('equal-activity:pseudo-equilibrium:gibbs-classified')
            if not (Gs - Gf <= 0.2): sfx += '/gibbs-above-feed>0.2'
            elif Gs > Gf + 1e-9: sfx += '/gibbs-above-feed'
            if not (Gs - Gref <= 0.5): sfx += '/gibbs-gap>0.5'
            # the recorded mechanism itself, checked (thorough run 11): this call is that of a fresh solver, so a method whose coefficients are never iterated returns the flash at its
            # documented starting guess - recomputed here from the inputs alone (guess_flash).  A mismatch of the activities on a result that is NOT that state is another mechanism:
            # its key carries a suffix that no recorded entry lists
            if is_guess_flash(th, G, flows / F, T, l / F, L / F): rec.hit('equal-activity:pseudo-equilibrium:starting-guess-flash')
            else: sfx += '/not-the-starting-guess-flash'; rec.hit('equal-activity:pseudo-equilibrium:not-the-starting-guess-flash')
        rec.check(dev <= bound, 'equal-activity', mtag + sfx, f'lle({method}) at T={T}: activities of a chemical differ between the liquids by {dev:.3g} of its larger activity ({dev_all:.3g} of the largest activity of all) '
                  f'(l: {al.tolist()}, L: {aL.tolist()}; ids={ids})', residual=dev)
        # top chemical has a mass fraction in L at least as high as in l
        if top is not None:
            MW = th.chemicals.MW; j = ids.index(top)
            wL = (L * MW)[j] / (L * MW).sum(); wl = (l * MW)[j] / (l * MW).sum()
            rec.check(wL >= wl - 1e-12, 'top-chemical', mtag, f'top chemical {top}: mass fraction in L {wL!r} < in l {wl!r}')
        # scaling the feed scales both rows
        try:
            k = case['k']
            sc = fresh_lle(th, ids, flows * k, T, method, top)
            rs = rows(sc)
            # resolution of each method: fixed-point iteration 1e-7, shgo f_tol 1e-6 -> 1e-5, stochastic optimiser 2e-2 (all relative to the feed)
            tol = {'pseudo equilibrium': 1e-7, 'shgo': 1e-5, 'differential evolution': 2e-2}[method] * F * k
            ok = np.allclose(rs['l'], k * l, rtol=0, atol=tol) and np.allclose(rs['L'], k * L, rtol=0, atol=tol)
            if not ok and free_labels(ids, flows, top):
                ok = np.allclose(rs['L'], k * l, rtol=0, atol=tol) and np.allclose(rs['l'], k * L, rtol=0, atol=tol)
            sfx = (trivial_class(rs, {'l': l, 'L': L}, G=G, T=T) if gibbs else trivial_class(rs, {'l': l, 'L': L})) if not ok else ''
            sdev = float(min(np.abs(rs['l'] - k * l).max(), np.abs(rs['L'] - k * l).max() if free_labels(ids, flows, top) else np.inf) / (F * k))
            if method == 'pseudo equilibrium' and not ok: sfx += '/dev' + size_class(sdev)
            rec.hit('scale:' + mtag)
            rec.check(ok, 'scale', mtag + sfx, f'lle({method}) of {k}*feed is not {k} times the split of the feed (differs by {sdev:.3g} of the feed): l {rs["l"].tolist()} vs {(k * l).tolist()}', residual=sdev)
        except Exception as e:
            if numeric_failure(e): refusal(rec, 'lle scaled-feed', e)
            else: rec.exception('scale', e, what=f'lle of the scaled feed raised {type(e).__name__}: {str(e)[:120]}')
        rec.mark_nontrivial(case_hash(case))
    try: lle_forms(case, rec, th, ids, flows, T, method, top, l, L, F, mtag)
    except Exception as e:
        if numeric_failure(e): refusal(rec, 'lle call-form', e)
        else: rec.exception('call-form/' + mtag, e, what=f'lle call form ({method}) on {ids} raised {type(e).__name__}: {str(e)[:120]}')
    # history: earlier calls on the same stream, then the judged call
    if case['hist']:
        s = tmo.MultiStream(None, phases=('L', 'l'), T=T, thermo=th)
        lle = s.lle; lle.method = method
        try:
            decreased = False
            Tprev = None
            rem_rows = None          # the two rows that call left on the stream (None when it was a pure query, which remembers coefficients without writing rows)
            dT_ = dz_ = None
            remembered = None        # (T, mole fractions, chemicals) of the last earlier call that reached the equilibrium code (two or more chemicals present): what the solver can remember
            for h in case['hist']:
                f2 = flows * np.array(h['mult']) if h['mult'] else flows
                if h.get('k'): f2 = f2 * h['k']
                s.imol['L'] = 0
                for i, v in zip(ids, f2): s.imol['l', i] = v
                if 'method' in h: lle.method = h['method']; rec.hit('history:method-switched')
                if h.get('query'):
                    lle(T + h['dT'], top_chemical=(h['top'] if 'top' in h else top), update=False); rec.hit('history:query(update=False)')      # asks for K and the phase fraction only
                else:
                    lle(T + h['dT'], top_chemical=(h['top'] if 'top' in h else top))
                lle.method = method
                Tprev = T + h['dT']
                p2 = f2 > 0
                if p2.sum() > 1:
                    remembered = (Tprev, f2[p2] / f2[p2].sum(), [i for i, v in zip(ids, f2) if v > 0])
                    rem_rows = None if h.get('query') else rows(s)
                if 'top' in h and h['top'] != top: rec.hit('history:top-changed')
                if h.get('kind'): rec.hit('history:last-call-' + h['kind'])
            if Tprev is not None and T < Tprev: decreased = True
            s.imol['L'] = 0
            for i, v in zip(ids, flows): s.imol['l', i] = v
            if case.get('repool'):
                for i, v, d in zip(ids, flows, case['repool']):
                    if v and d: s.imol['L', i] = v * d; s.imol['l', i] = v - v * d
                rec.hit('history:re-pooled')
            # will the call take the cache-hit branch?  decided from the generated inputs alone, with the documented tolerances as constants (same chemicals, |dT| < 1e-3 K, every |dz| < 1e-5
            # against the last call the solver can remember): reading the solver's own tolerances and remembered state would move the class together with a defect in them
            hsfx = ''
            pos = flows > 0
            zj = flows[pos] / flows[pos].sum()
            present = [i for i, v in zip(ids, flows) if v]
            same_set = remembered is not None and remembered[2] == present
            set_changed = not same_set
            rec.hit('history:class-from-inputs')
            if same_set:
                dT_ = abs(T - remembered[0]); dz_ = float(np.abs(remembered[1] - zj).max())
                inside = dT_ < 1e-3 * (1 - 1e-6) and dz_ < 1e-5 * (1 - 1e-6)
                outside = dT_ >= 1e-3 * (1 + 1e-6) or dz_ >= 1e-5 * (1 + 1e-6)
                if case['use_cache'] and inside:
                    hsfx = '/cache-hit'; rec.hit('history:cache-hit'); rec.hit('history:cache-hit:' + mtag)
                    # a pure query (update=False) in between must not have replaced what the solver remembers for this point: its own key, outside the recorded cache-hit finding
                    if any(h_.get('query') for h_ in case['hist']): hsfx = '/hit-after-query'
                elif case['use_cache'] and not outside:
                    hsfx = '/at-the-edge-of-the-cache-tolerances'; rec.hit('history:cache-tolerance-edge')
                elif case['use_cache']: rec.hit('history:use_cache:outside-tolerances')
            else: rec.hit('history:chemical-set-changed')
            lle(T, top_chemical=top, use_cache=case['use_cache'])
        except Exception as e:
            if numeric_failure(e): refusal(rec, 'lle history', e); return
            rec.exception('history/' + mtag, e, what=f'lle history ({method}) raised {type(e).__name__}: {str(e)[:120]}'); return
        rh = rows(s)
        tol = {'pseudo equilibrium': 1e-6, 'shgo': 1e-5, 'differential evolution': 2e-2}[method] * F
        ok = np.allclose(rh['l'], l, rtol=0, atol=tol) and np.allclose(rh['L'], L, rtol=0, atol=tol)
        if not ok and free_labels(ids, flows, top):
            ok = np.allclose(rh['L'], l, rtol=0, atol=tol) and np.allclose(rh['l'], L, rtol=0, atol=tol)
        dev = float(min(np.abs(rh['l'] - l).max(), np.abs(rh['L'] - l).max()) / F)
        if not ok and hsfx == '/cache-hit' and method != 'pseudo equilibrium' and rem_rows is not None and (dT_ > 0 or dz_ > 0):
            # thorough run (seed 1): the remembered point is NOT the judged one but lies within the documented cache tolerances (1e-3 K, 1e-5 in every mole fraction; decided above from the
            # generated inputs).  Reuse then means: the judged feed flashed at the coefficients of the remembered point - the stated resolution of the cache.  The lever rule amplifies a
            # composition difference of 1e-5 into a larger difference of the split (witnesses: dz 8e-6 .. 1e-5 -> 1.0e-5 .. 3.7e-5 of the feed, just over the bound of 1e-5), so the bound in
            # flows was tighter than that resolution.  Accepted only when the mechanism is confirmed: the returned rows ARE that flash (remembered_flash, from the rows the last earlier call
            # left; witnesses agree to 1e-15 of the feed; bound 1e-7) and the difference from the fresh solver stays below 100 times the composition tolerance.  Gibbs-minimising methods only:
            # their remembered coefficients are an equilibrium solved without memory; those of the default method depend on the call history (recorded finding, own keys).
            with np.errstate(all='ignore'):
                pred = remembered_flash(rem_rows, flows)
            if pred is not None and dev <= 1e-3 and min(max(np.abs(pred['l'] - rh['l']).max(), np.abs(pred['L'] - rh['L']).max()),
                                                        max(np.abs(pred['L'] - rh['l']).max(), np.abs(pred['l'] - rh['L']).max())) <= 1e-7 * F:
                ok = True; rec.hit('history:cache-hit:flash-at-remembered-point-within-tolerances')
        ctag = 'use_cache' if case['use_cache'] else 'no-cache'
        rec.hit('history:' + ctag)
        rec.hit('history:' + mtag)
        if decreased: rec.hit('history:T-decrease')
        tsfx = trivial_class(rh, {'l': l, 'L': L}, G=G, T=T) if (not ok and method != 'pseudo equilibrium') else ''
        # the default method (recorded finding: the result depends on the remembered coefficients): the size class of the difference goes into the key
        if not ok and method == 'pseudo equilibrium': tsfx += '/dev' + size_class(dev)
        # when the chemicals present differ from those of the previous call the solver forgets its coefficients: the call is that of a fresh solver (judged under its own clause)
        rec.check(ok, 'history-reset' if set_changed else 'history', f'{mtag}/{ctag}' + ('/T-decrease' if decreased else '') + hsfx + tsfx,
                  f'lle({method}, use_cache={case["use_cache"]}) at T={T} after {len(case["hist"])} earlier calls (last at T={Tprev}) differs from a fresh solver by {dev:.3g} of the feed: l {rh["l"].tolist()} vs fresh {l.tolist()}',
                  residual=dev)


_APPLIED = {}


def install_probe():
    """observe the event the property speaks about: the solubility the solver computed and APPLIED (the argument of the last SLE._update_solubility of a call).
    Solving again afterwards is no reference: the iteration x -> solubility(gamma(x)) can have several fixed points (glucose in a little water: 1.2e-3 and 0.276)
    and is not idempotent from another starting state."""
    from thermosteam.equilibrium.sle import SLE
    if getattr(SLE, '_vt_probe', False): return
    orig = SLE._update_solubility
    def _update_solubility(self, x):
        _APPLIED['x'] = float(x); _APPLIED['n'] = _APPLIED.get('n', 0) + 1
        return orig(self, x)
    SLE._update_solubility = _update_solubility
    SLE._vt_probe = True


_SOLVED = {}


def install_probe2():
    """the other place where 'the solubility it computed' can be observed: the value the solver's solubility solve hands back to the call (SLE._solve_x), whether or not anything
    was written to the rows while solving.  Missing helper -> no probe (the reach counter 'sle:computed-returned' then stays at zero and the run is inconclusive)."""
    from thermosteam.equilibrium.sle import SLE
    if getattr(SLE, '_vt_probe2', False): return True
    orig = getattr(SLE, '_solve_x', None)
    if orig is None: return False
    def _solve_x(self, T):
        x = orig(self, T)
        try: _SOLVED['x'] = float(x); _SOLVED['T'] = float(T); _SOLVED['n'] = _SOLVED.get('n', 0) + 1
        except Exception: pass
        return x
    SLE._solve_x = _solve_x
    SLE._vt_probe2 = True
    return True


def eutectic_bound(chem, T, gamma):
    """eutectic (Schroeder - van Laar) solubility from the public data of the chemical: what an ideal package computes (SLE documents activity_coefficient for exactly that case)"""
    from chemicals import solubility_eutectic
    return float(solubility_eutectic(T, chem.Tm, chem.Hfus, chem.Cn.l(T), chem.Cn.s(T), gamma))


def judge_returned(rec, solved, xl, solid, x_max, pkgclass, tail, what):
    """never more dissolved than the solubility the call computed (as returned by its solubility solve) allows, nor more than is present"""
    sol = solved.get('x')
    if sol is None or sol != sol: return
    rec.hit('sle:computed-returned'); rec.hit('sle:computed-returned:' + pkgclass)
    rec.check(xl <= max(sol, 0.0) + 1e-9 or (solid == 0 and xl <= x_max + 1e-12), 'sle:solubility', f'computed-returned/{pkgclass}{tail}',
              f'{what}: liquid mole fraction of the solute {xl!r} exceeds the solubility {sol!r} the call computed (solid left: {solid!r}; all dissolved would be {x_max!r})', residual=max(0.0, xl - sol))


def judge_eutectic(rec, chem, T, act, xl, solid, x_max, tail, what):
    """ideal package, temperature given: the computed solubility is the eutectic solubility with the user's activity coefficient (1 if none)"""
    lim = eutectic_bound(chem, T, act or 1.)
    if lim != lim: return
    rec.hit('sle:eutectic-model')
    if act: rec.hit('sle:eutectic-model:activity_coefficient')
    rec.check(xl <= max(lim, 0.0) * (1 + 1e-9) + 1e-12 or (solid == 0 and xl <= x_max + 1e-12), 'sle:solubility', f'eutectic-model/ideal-package{tail}' + ('/activity_coefficient' if act else ''),
              f'{what}: liquid mole fraction of the solute {xl!r} exceeds the eutectic solubility {lim!r} of the ideal package at T={T!r} (activity coefficient {act or 1.}; solid left: {solid!r}; all dissolved would be {x_max!r})',
              residual=max(0.0, xl - lim))


def require_probes(rec, applied, solved, what):
    """every computed, non-pure call that returned must have passed both observation points (the solubility solve and the place where a solubility is applied to the rows): a path
    of the library that computes or applies a solubility elsewhere would otherwise leave the clause silently unjudged.  Not a statement about the property: the run is inconclusive."""
    if applied.get('n', 0) >= 1 and solved.get('n', 0) >= 1:
        rec.hit('sle:probes-reached'); return True
    missing = ', '.join(n_ for n_, d_ in (('SLE._update_solubility', applied), ('SLE._solve_x', solved)) if d_.get('n', 0) < 1)
    rec.exception('sle:solubility/probe-not-reached', RuntimeError(f'probe-not-reached: {what} (computed solubility, solvent present) returned without passing {missing}'))
    return False


def judge_fixed_point(rec, th, chem, j, T, liquid, solid, kind, tail, what, applied=None):
    """activity model, temperature given, solid left, liquid other than the solute present: the liquid is saturated, so its solute mole fraction x is the solubility the call computed,
    and that is a fixed point of x = eutectic solubility(T, activity coefficient of the solute at the liquid's composition) - the relation SLE documents (activity_coefficient: 'of the
    solute in the liquid').  The activity coefficient is taken from the package for ALL its chemicals at the liquid's mole fractions (absent ones at zero), independent of the
    solver's index bookkeeping; the iteration stops on a change of x below 1e-6."""
    liq = float(liquid.sum())
    if not (liq > 0 and solid > 0 and liquid[j] > 0 and liq - liquid[j] > 0): return
    x = liquid / liq
    try:
        with np.errstate(all='ignore'):
            g = float(gamma_of(th)(x.copy(), T)[j])
        lim = eutectic_bound(chem, T, g)
    except (FloatingPointError, ZeroDivisionError, OverflowError): rec.hit('sle:fixed-point-model:not-evaluable'); return
    if not (lim == lim and g == g and g > 0): rec.hit('sle:fixed-point-model:not-evaluable'); return
    xl = float(x[j])
    rec.hit('sle:fixed-point-model'); rec.hit('sle:fixed-point-model:' + kind)
    res = abs(xl - lim)
    # mechanism (observed on the call, not a reference): the solubility iteration of the call applied 200 or more trial solubilities, i.e. it ran into its iteration limit (100 accelerated
    # steps of two evaluations) and handed back an iterate that is not a fixed point
    lim_sfx = '/iteration-limit-reached' if (applied or {}).get('n', 0) >= 200 else ''
    rec.check(res <= 1e-4 * max(xl, lim) + 2e-5, 'sle:solubility', f'eutectic-model/activity-model{tail}/' + ('above-model' if xl > lim else 'below-model') + lim_sfx,
              f'{what}: solid solute remains ({solid!r}) but the liquid mole fraction of the solute {xl!r} is not the eutectic solubility {lim!r} for the activity coefficient {g!r} the package gives the solute in that liquid at T={T!r}',
              residual=res)


def warranted_refusal(e, rest_liquid, pure):
    """the one raise of the solid-liquid solver that the inputs explain: the activity-model solubility iteration divides by the amount of liquid, which is zero when nothing but the solute
    could be liquid (another chemical is present only as a solid) - FloatingPointError"""
    return isinstance(e, FloatingPointError) and rest_liquid == 0 and not pure


def run_sle(case, rec):
    ids = case['ids']; th = thermo(ids, case.get('gamma')); tmo.settings.set_thermo(th)
    solute = ids[0]; T = case['T']
    if case.get('gamma'): rec.hit('sle:gamma=' + case['gamma'])
    if case['dist'] > 0: rec.hit('sle:solid-in-feed')
    s = tmo.MultiStream(None, phases=('s', 'l'), T=T, thermo=th)
    s.imol['s', solute] = case['flows'][0] * case['dist']; s.imol['l', solute] = case['flows'][0] * (1 - case['dist'])
    for i, v in zip(ids[1:], case['flows'][1:]): s.imol['l', i] = v
    before = rows(s)
    present = float(before['s'][0] + before['l'][0])
    # a given solubility is only meaningful with a solvent (the pure-solute clause is about the melting point)
    kw = {'solubility': case['solubility']} if (case['solubility'] is not None and len(ids) > 1) else {}
    def start(st):
        st.imol['s', solute] = case['flows'][0] * case['dist']; st.imol['l', solute] = case['flows'][0] * (1 - case['dist'])
        for i, v in zip(ids[1:], case['flows'][1:]): st.imol['l', i] = v
    try:
        for h in case.get('shist', []):
            for i, v, m_ in zip(ids[1:], case['flows'][1:], h['mult']): s.imol['l', i] = v * m_
            hk = {'solubility': h['sol']} if (h['sol'] is not None and any(h['mult'])) else {}
            try: s.sle(solute, T=h['T'], **hk)
            except Exception as e:
                if not numeric_failure(e): raise
                refusal(rec, 'sle earlier-call', e)
            start(s)
            rec.hit('sle:history-step')
            if not any(h['mult']) and len(ids) > 1: rec.hit('sle:history:pure-then-solvent')
        if case['prior']: s.sle(solute, T=min(T + 15, 450))       # an earlier call on the same solver
        if case.get('shist') or case['prior']: start(s)
        install_probe(); _APPLIED.clear()
        install_probe2(); _SOLVED.clear()
        s.sle(solute, T=T, **kw)
        applied = dict(_APPLIED); solved = dict(_SOLVED)
    except Exception as e:
        # (the judged call always has every solvent of the case in the liquid: no raise is explained by the inputs)
        rec.exception('sle', e, what=f'sle on {ids} (solubility={case["solubility"]}) raised {type(e).__name__}: {str(e)[:140]}'); return
    after = rows(s)
    j = 0
    if case.get('shist') or case['prior']:
        # the same call on a fresh stream (fresh solver) from the same starting rows
        f = tmo.MultiStream(None, phases=('s', 'l'), T=T, thermo=th); start(f)
        try:
            f.sle(solute, T=T, **kw)
            rf = rows(f)
            dev = max(float(np.abs(rf[p_] - after[p_]).max()) for p_ in ('s', 'l')) / max(present, 1e-300)
            rec.check(dev <= 1e-7, 'sle:history', 'given' if kw else 'computed', f'sle({solute}, T={T}{", solubility" if kw else ""}) after {len(case.get("shist", []))} earlier calls differs from a fresh stream by {dev:.3g} of the solute: '
                      f's/l = {after["s"][j]!r}/{after["l"][j]!r} vs fresh {rf["s"][j]!r}/{rf["l"][j]!r} (earlier calls: {case.get("shist")})', residual=dev)
        except Exception as e:
            if numeric_failure(e): refusal(rec, 'sle fresh-solver', e)
            else: rec.exception('sle:history/fresh-solver', e, what=f'sle({solute}, T={T}) by a fresh solver on a fresh stream raised {type(e).__name__}: {str(e)[:140]} (the call after the earlier calls returned)')
    others_same = all(np.array_equal(np.delete(after[p], j), np.delete(before[p], j)) for p in ('s', 'l'))
    rec.check(others_same, 'sle:solute-only', 'rows', f'sle changed chemicals other than the solute: before {before} after {after}')
    tot = after['s'][j] + after['l'][j]
    rec.check(abs(tot - present) <= 1e-12 * present and after['s'][j] >= 0 and after['l'][j] >= 0, 'sle:solute-only', 'solute-total', f'solute total changed {present!r} -> {tot!r} (s {after["s"][j]}, l {after["l"][j]})')
    Tm = th.chemicals[solute].Tm
    if len(ids) == 1:
        if T > Tm: rec.check(abs(after['l'][j] - present) <= 1e-12 * present and after['s'][j] == 0, 'sle:pure', 'above-Tm', f'pure {solute} at T={T} > Tm={Tm}: liquid {after["l"][j]}, solid {after["s"][j]}')
        else: rec.check(abs(after['s'][j] - present) <= 1e-12 * present and after['l'][j] == 0, 'sle:pure', 'below-Tm', f'pure {solute} at T={T} <= Tm={Tm}: liquid {after["l"][j]}, solid {after["s"][j]}')
        rec.mark_nontrivial(case_hash(case)); return
    xl = after['l'][j] / after['l'].sum() if after['l'].sum() else 0.0
    if kw:
        sol = case['solubility']
    else:
        require_probes(rec, applied, solved, f'sle({solute}, T={T}) on {ids}')
        sol = applied.get('x')       # the solubility the solver computed and applied last in the judged call (probe on SLE._update_solubility)
    if sol is not None:
        slack_ = 1e-9
        rec.check(xl <= max(sol, 0.0) + slack_ or after['s'][j] == 0 and xl <= present / (present + sum(case['flows'][1:])) + 1e-12, 'sle:solubility',
                  'given' if kw else 'computed', f'liquid mole fraction of {solute} {xl!r} exceeds the solubility {sol!r} although solid remains ({after["s"][j]})', residual=max(0.0, xl - sol))
        if after['s'][j] > 0 and sol > 0:
            rec.check(abs(xl - sol) <= 1e-9, 'sle:solubility', 'saturated', f'solid {solute} remains but the liquid mole fraction {xl!r} is not the solubility {sol!r} the solver applied', residual=abs(xl - sol))
    if not kw:
        # round 5: the solubility as the call's own solve returned it, and for the ideal package the eutectic solubility
        x_max = present / (present + sum(case['flows'][1:]))
        hs = '/after-earlier-calls' if (case.get('shist') or case['prior']) else ''
        judge_returned(rec, solved, xl, after['s'][j], x_max, 'ideal-package' if case.get('gamma') == 'ideal' else 'activity-model', hs, f'sle({solute}, T={T}) on {ids}')
        if case.get('gamma') == 'ideal': judge_eutectic(rec, th.chemicals[solute], T, None, xl, after['s'][j], x_max, hs, f'sle({solute}, T={T}) on {ids}')
        else: judge_fixed_point(rec, th, th.chemicals[solute], j, T, after['l'], after['s'][j], 'sle', hs, f'sle({solute}, T={T}) on {ids}', applied)
    if 0 < after['l'][j] < present: rec.mark_nontrivial(case_hash(case))
    elif after['l'][j] in (0, present): rec.mark_nontrivial(case_hash((case['ids'], 'edge', round(T))))


def same_split(ra, l, L, tol, top):
    # (top: the named top chemical, or None when the labels are free - none named, or the named one absent from the feed)
    ok = np.allclose(ra['l'], l, rtol=0, atol=tol) and np.allclose(ra['L'], L, rtol=0, atol=tol)
    if not ok and top is None:
        ok = np.allclose(ra['L'], l, rtol=0, atol=tol) and np.allclose(ra['l'], L, rtol=0, atol=tol)
    return ok


def lle_forms(case, rec, th, ids, flows, T, method, top, l, L, F, mtag):
    """other ways of making the same call: the feed pre-split over l / L, P given, single_loop, update=False"""
    tol = {'pseudo equilibrium': 1e-7, 'shgo': 1e-5, 'differential evolution': 2e-2}[method] * F
    base = {'l': l, 'L': L}
    def tsfx(r): return trivial_class(r, base, G=gamma_of(th), T=T) if method != 'pseudo equilibrium' else ''
    top_ = None if free_labels(ids, flows, top) else top
    if case.get('presplit'):
        r = rows(fresh_lle(th, ids, flows, T, method, top, presplit=case['presplit']))
        ok = same_split(r, l, L, tol, top_)
        rec.hit('feed:pre-split')
        rec.check(ok, 'pre-split', mtag + ('' if ok else tsfx(r)), f'lle({method}) at T={T} of a feed that starts distributed {case["presplit"]} over L / l differs from the same feed entirely in l: l {r["l"].tolist()} vs {l.tolist()} (ids={ids})')
    forms = case.get('forms') or {}
    if forms.get('P'):
        s = fresh_lle(th, ids, flows, T, method, top, P=forms['P']); r = rows(s)
        ok = same_split(r, l, L, tol, top_)
        rec.hit('form:P')
        rec.check(ok, 'call-form', f'{mtag}/P' + ('' if ok else tsfx(r)), f'lle({method}, T={T}, P={forms["P"]}) differs from the call without P: l {r["l"].tolist()} vs {l.tolist()} (ids={ids})')
    if forms.get('single_loop') and method == 'pseudo equilibrium':
        s = fresh_lle(th, ids, flows, T, method, top, single_loop=True); r = rows(s)
        rec.hit('form:single_loop')
        rec.check(same_split(r, l, L, tol, top_), 'call-form', f'{mtag}/single_loop', f'lle({method}, single_loop=True) at T={T} differs from the two-loop call: l {r["l"].tolist()} vs {l.tolist()} (ids={ids})')
        if r['l'].sum() > 1e-9 * F and r['L'].sum() > 1e-9 * F:
            G = gamma_of(th)
            with np.errstate(all='ignore'):
                dev, dev_all, al, aL = activity_mismatch(G, r['l'], r['L'], T)
            rec.hit('equal-activity:single_loop')
            rec.check(dev <= 1e-3, 'equal-activity', mtag + ('/single_loop/dev' + size_class(dev) if dev > 1e-3 else ''), f'lle({method}, single_loop=True) at T={T}: activities of a chemical differ between the liquids by {dev:.3g} of its larger activity '
                      f'({dev_all:.3g} of the largest activity of all) (l: {al.tolist()}, L: {aL.tolist()}; ids={ids})', residual=dev)
    if forms.get('update_false') and method != 'differential evolution':
        # update=False returns (chemicals, K, phase fraction) instead of writing the split: they must be those of the writing call
        ref = fresh_lle(th, ids, flows, T, method, top)
        Kref, phiref = np.array(ref.lle._K, float), float(ref.lle._phi)
        s = tmo.MultiStream(None, phases=('L', 'l'), T=T, thermo=th)
        for i, v in zip(ids, flows):
            if v: s.imol['l', i] = v
        before = rows(s)
        lle = s.lle; lle.method = method
        ret = lle(T, top_chemical=top, update=False)
        rec.hit('form:update=False')
        if ret is not None:
            chems_, K, phi = ret
            ktol = 1e-9 if method == 'pseudo equilibrium' else 1e-3
            rec.check([c.ID for c in chems_] == [i for i, v in zip(ids, flows) if v] and np.allclose(np.asarray(K, float), Kref, rtol=ktol, atol=0) and abs(phi - phiref) <= ktol, 'call-form', f'{mtag}/update=False',
                      f'lle({method}, update=False) at T={T} returns K={np.asarray(K).tolist()}, phi={phi!r} but the writing call ends with K={Kref.tolist()}, phi={phiref!r} (ids={ids})')
        after = rows(s)
        if not all(np.array_equal(after[p_], before[p_]) for p_ in ('l', 'L')): rec.hit('form:update=False:rows-moved-between-l-and-L')     # observed, not a statement of C15 (totals are C03's)


SOLUTES = ('Glucose', 'Tetradecanol', 'AceticAcid')


def gen_sle2(rng):
    """coverage audit: the named solute anywhere in the package, a second solid-capable chemical holding solid and dissolved material, solvents of the package at zero flow (pure solute inside
    a larger package), the H= and P= call forms, a user activity coefficient with the ideal package, T at the melting point"""
    a = rng.choice(SOLUTES)
    b = rng.choice([None, None] + [x for x in SOLUTES if x != a])
    solv = rng.sample(['Water', 'Ethanol', 'Methanol', 'Octane'], rng.randrange(0, 4))
    members = [a] + ([b] if b else []) + solv
    perm = list(range(len(members))); rng.shuffle(perm)
    ids = [members[k] for k in perm]
    fl = {a: round(10 ** rng.uniform(-2, 2), 4)}
    for i in solv: fl[i] = 0.0 if rng.random() < 0.3 else round(10 ** rng.uniform(-2, 2), 4)
    c = {'t': 'sle2', 'ids': ids, 'solute': a, 'other': b, 'flows': [fl.get(i, 0.0) for i in ids], 'dist': rng.choice([0.0, 1.0, round(rng.random(), 3), round(rng.random(), 3)]),
         'other_s': round(10 ** rng.uniform(-2, 1), 4) if b and rng.random() < 0.8 else 0.0, 'other_l': round(10 ** rng.uniform(-2, 1), 4) if b and rng.random() < 0.6 else 0.0,
         'T': round(rng.uniform(250, 450), 2), 'spec': rng.choice(['T', 'T', 'H']), 'hfrac': round(rng.uniform(-0.3, 1.3), 4), 'P': rng.choice([None, None, round(10 ** rng.uniform(4.5, 6), 1)]),
         'solubility': rng.choice([None, None, round(rng.random() * 0.6, 4)]), 'gamma': rng.choice([None, 'ideal', 'ideal']), 'act': rng.choice([None, round(rng.uniform(0.2, 5), 3)]),
         'Tedge': rng.choice([None] * 8 + ['Tm', 'Tm+', 'Tm-'])}
    return c


def run_sle2(case, rec):
    ids = case['ids']; th = thermo(ids, case.get('gamma')); tmo.settings.set_thermo(th)
    solute = case['solute']; j = ids.index(solute); other = case['other']
    chem = th.chemicals[solute]; Tm = chem.Tm
    T = case['T']
    if case['Tedge'] == 'Tm': T = Tm
    elif case['Tedge'] == 'Tm+': T = float(np.nextafter(Tm, np.inf))
    elif case['Tedge'] == 'Tm-': T = float(np.nextafter(Tm, -np.inf))
    def build(Ts):
        s = tmo.MultiStream(None, phases=('s', 'l'), T=Ts, thermo=th)
        v = case['flows'][j]
        if case['dist'] > 0: s.imol['s', solute] = v * case['dist']
        if case['dist'] < 1: s.imol['l', solute] = v - v * case['dist']
        for i, f in zip(ids, case['flows']):
            if i != solute and f: s.imol['l', i] = f
        if other:
            if case['other_s']: s.imol['s', other] = case['other_s']
            if case['other_l']: s.imol['l', other] = case['other_l']
        return s
    s = build(T)
    before = rows(s)
    present = float(before['s'][j] + before['l'][j])
    others_flow = float(before['s'].sum() + before['l'].sum() - present)
    pure = others_flow == 0
    kw = {}
    if case['solubility'] is not None and not pure: kw['solubility'] = case['solubility']
    if case['P']: kw['P'] = case['P']
    act = case['act'] if case.get('gamma') == 'ideal' else None
    try:
        if case['spec'] == 'H':
            # enthalpy between (and a little beyond) the all-solid and the all-liquid state at T
            lo = build(T); lo.imol['s', solute] = present; lo.imol['l', solute] = 0.0
            hi = build(T); hi.imol['l', solute] = present; hi.imol['s', solute] = 0.0
            Hlo, Hhi = lo.H, hi.H
            target = Hlo + case['hfrac'] * (Hhi - Hlo)
            sle = s.sle
            if act: sle.activity_coefficient = act
            install_probe(); _APPLIED.clear()
            install_probe2(); _SOLVED.clear()
            sle(solute, H=target, **kw)
            applied = dict(_APPLIED); solved = dict(_SOLVED)
        else:
            sle = s.sle
            if act: sle.activity_coefficient = act
            install_probe(); _APPLIED.clear()
            install_probe2(); _SOLVED.clear()
            sle(solute, T=T, **kw)
            applied = dict(_APPLIED); solved = dict(_SOLVED)
    except Exception as e:
        if warranted_refusal(e, float(before['l'].sum() - before['l'][j]), pure): refusal(rec, 'sle no-liquid-but-the-solute', e); return
        rec.exception('sle', e, what=f'sle({solute}, {case["spec"]}=..., {kw}) on {ids} raised {type(e).__name__}: {str(e)[:140]}'); return
    after = rows(s)
    rec.hit('sle2')
    rec.hit('sle:spec=' + case['spec'])
    if j != 0: rec.hit('sle:solute-not-first')
    if other and (case['other_s'] or case['other_l']): rec.hit('sle:second-solute')
    if other and case['other_s']: rec.hit('sle:second-solute-solid')
    if case['P']: rec.hit('sle:P-given')
    if act: rec.hit('sle:activity_coefficient')
    if pure and len(ids) > 1: rec.hit('sle:pure-in-package')
    tag = 'multi-solute' if other else 'package'
    others_same = all(np.array_equal(np.delete(after[p], j), np.delete(before[p], j)) for p in ('s', 'l'))
    rec.check(others_same, 'sle:solute-only', 'rows/' + tag + ('/H-spec' if case['spec'] == 'H' else ''), f'sle({solute}) changed chemicals other than the solute: before {before} after {after} (ids={ids})')
    tot = after['s'][j] + after['l'][j]
    rec.check(abs(tot - present) <= 1e-12 * present and after['s'][j] >= 0 and after['l'][j] >= 0, 'sle:solute-only', 'solute-total/' + tag, f'solute total changed {present!r} -> {tot!r} (s {after["s"][j]}, l {after["l"][j]})')
    Tend = s.T
    if pure:
        if case['spec'] == 'T':
            if case['Tedge'] == 'Tm':
                rec.hit('sle:pure:at-Tm->' + ('solid' if after['l'][j] == 0 else 'liquid' if after['s'][j] == 0 else 'split')); rec.mark_nontrivial(case_hash(case)); return
            if case['Tedge']: rec.hit('sle:pure:next-to-Tm')
            if T > Tm: rec.check(abs(after['l'][j] - present) <= 1e-12 * present and after['s'][j] == 0, 'sle:pure', 'above-Tm/' + tag, f'pure {solute} (package {ids}) at T={T!r} > Tm={Tm!r}: liquid {after["l"][j]}, solid {after["s"][j]}')
            else: rec.check(abs(after['s'][j] - present) <= 1e-12 * present and after['l'][j] == 0, 'sle:pure', 'below-Tm/' + tag, f'pure {solute} (package {ids}) at T={T!r} < Tm={Tm!r}: liquid {after["l"][j]}, solid {after["s"][j]}')
        else:
            # enthalpy given: above the melting point all liquid, below all solid, at the melting point any split
            if Tend > Tm: rec.check(after['s'][j] == 0, 'sle:pure', 'above-Tm/H-spec', f'pure {solute}, H given: ends at T={Tend!r} > Tm={Tm!r} with solid {after["s"][j]}')
            elif Tend < Tm: rec.check(after['l'][j] == 0, 'sle:pure', 'below-Tm/H-spec', f'pure {solute}, H given: ends at T={Tend!r} < Tm={Tm!r} with liquid {after["l"][j]}')
            else: rec.ok('sle:pure')
        rec.mark_nontrivial(case_hash(case)); return
    liq = after['l'].sum()
    xl = after['l'][j] / liq if liq else 0.0
    given = 'solubility' in kw
    slack = 1e-9
    if given: sol = case['solubility']
    else:
        require_probes(rec, applied, solved, f'sle({solute}, {case["spec"]} given) on {ids}')
        sol = applied.get('x')       # the solubility the solver computed and applied last in the judged call (probe on SLE._update_solubility)
    if act and not given and sol is not None and case['spec'] == 'T':      # (with an H specification the last applied value belongs to the last temperature iterate)
        # user activity coefficient with the ideal package: the eutectic solubility with that coefficient
        from chemicals import solubility_eutectic
        exp = solubility_eutectic(Tend, Tm, chem.Hfus, chem.Cn.l(Tend), chem.Cn.s(Tend), act)
        rec.check(abs(sol - exp) <= 1e-12 * max(abs(exp), 1e-300), 'sle:solubility', 'activity_coefficient', f'computed solubility {sol!r} of {solute} with activity_coefficient={act} is not the eutectic solubility {exp!r}')
    if sol is not None:
        rest = liq - after['l'][j]
        usfx = ''
        if case['spec'] == 'H' and not given and not (xl <= max(sol, 0.0) + slack or (after['s'][j] == 0 and xl <= present / (present + rest) + 1e-12)):
            # mechanism: is the returned temperature a fixed point of the solver's own iteration (solubility at T -> split -> T from H)?  the equilibrium split at the returned
            # temperature must then carry the specified enthalpy (to the iteration's 1e-3 K); if it does not, an unconverged iterate was returned (the iteration runs with checkiter=False)
            try:
                c2 = s.copy(); c2.sle(solute, T=Tend)
                if abs(c2.H - target) > 1e-2 * max(c2.C, 1e-300): usfx = '/unconverged-temperature-iteration'
            except Exception: pass
        rec.check(xl <= max(sol, 0.0) + slack or (after['s'][j] == 0 and xl <= present / (present + rest) + 1e-12), 'sle:solubility', ('given/' if given else 'computed/') + tag + ('/H-spec' if case['spec'] == 'H' else '') + usfx,
                  f'liquid mole fraction of {solute} {xl!r} exceeds the solubility {sol!r} although solid remains ({after["s"][j]}) (ids={ids}, T={Tend!r})', residual=max(0.0, xl - sol))
        if after['s'][j] > 0 and sol > 0 and case['spec'] == 'T' and rest > 0:      # (without any other liquid there is nothing to dissolve in)
            rec.check(abs(xl - sol) <= 1e-6, 'sle:solubility', 'saturated/' + tag, f'solid {solute} remains but the liquid mole fraction {xl!r} is not the solubility {sol!r} (ids={ids})', residual=abs(xl - sol))
    if not given:
        # round 5: the solubility as the call's own solve returned it (with H given: that of the last temperature iterate, which is what the rows were last written from), and for the ideal package at a given T the eutectic solubility
        rest_ = liq - after['l'][j]; x_max = present / (present + rest_)
        tl = '/' + tag + ('/H-spec' if case['spec'] == 'H' else '')
        judge_returned(rec, solved, xl, after['s'][j], x_max, 'ideal-package' if case.get('gamma') == 'ideal' else 'activity-model', tl, f'sle({solute}, {case["spec"]} given) on {ids}')
        if case.get('gamma') == 'ideal' and case['spec'] == 'T': judge_eutectic(rec, chem, Tend, act, xl, after['s'][j], x_max, '/' + tag, f'sle({solute}, T={Tend!r}) on {ids}')
        elif case['spec'] == 'T': judge_fixed_point(rec, th, chem, j, Tend, after['l'], after['s'][j], 'sle2', '/' + tag, f'sle({solute}, T={Tend!r}) on {ids}', applied)
    if 0 < after['l'][j] < present: rec.mark_nontrivial(case_hash(case))
    else: rec.mark_nontrivial(case_hash((case['ids'], 'edge', round(T))))


SOLVENTS3 = ('Water', 'Ethanol', 'Methanol', 'Octane', 'Octanol', 'Acetone')
PKGS3 = ('default', 'unifac', 'ideal-gamma', 'ideal()')


def thermo3(ids, pkg):
    """the property packages a user can hand to a solid-liquid calculation: the default (Dortmund) and the UNIFAC activity model, Thermo(..., Gamma=IdealActivityCoefficients), thermo.ideal() (IdealThermo)"""
    if pkg == 'default': return thermo(ids)
    if pkg == 'ideal-gamma': return thermo(ids, 'ideal')
    k = (tuple(ids), 'pkg3:' + pkg)
    if k not in _th:
        if pkg == 'ideal()': _th[k] = thermo(ids).ideal()
        else: _th[k] = tmo.Thermo(tmo.Chemicals(list(ids), cache=True), Gamma=tmo.equilibrium.UNIFACActivityCoefficients)
    return _th[k]


def gen_sle3(rng):
    """round 5: ramps of calls on one solver without resetting the rows, on every object kind that offers the calculation and every kind of property package, each step judged on what the
    call computed / was given (and for ideal packages on the eutectic solubility) and compared with a fresh solver started from the same rows"""
    a = rng.choice(SOLUTES)
    solv = rng.sample(SOLVENTS3, rng.randrange(1, 4))
    absent = rng.sample([x for x in SOLVENTS3 if x not in solv], rng.choice([0, 0, 1, 2]))
    members = [a] + solv + absent
    perm = list(range(len(members))); rng.shuffle(perm)
    pkg = rng.choice(['default', 'default', 'unifac', 'ideal-gamma', 'ideal-gamma', 'ideal()', 'ideal()'])
    ideal = pkg in ('ideal-gamma', 'ideal()')
    steps = []
    for k in range(rng.choice([1, 1, 2, 3, 4])):
        st = {'T': round(rng.uniform(250, 450), 2), 'dTm': (-round(rng.uniform(0.5, 60), 2) if rng.random() < 0.6 else None), 'spec': rng.choice(['T', 'T', 'T', 'H']), 'hfrac': round(rng.uniform(-0.2, 1.2), 4),
              'sol': None, 'mult': None, 'add': None, 'act': 'keep', 'reset': rng.random() < 0.3}
        r = rng.random()
        if r < 0.2: st['sol'] = round(rng.random() * 0.6, 4)
        elif r < 0.32: st['sol'] = rng.choice([0.0, 1.0, 1e-9, 'all', 'all-', 'all+'])      # boundary values: nothing / everything soluble, (just short of / beyond) what dissolves all of the solute
        if k and rng.random() < 0.4: st['mult'] = [rng.choice([0.0, 1.0, round(rng.uniform(0.2, 3), 3), round(rng.uniform(0.2, 3), 3)]) for _ in solv]
        if k and absent and rng.random() < 0.2: st['add'] = [rng.choice(absent), round(10 ** rng.uniform(-2, 2), 4)]
        if ideal and rng.random() < 0.35: st['act'] = rng.choice([None, round(rng.uniform(0.2, 5), 3)])
        steps.append(st)
    if rng.random() < 0.12:
        # one and the same feed: solubility computed, then given, then computed again (what the solver keeps from the given-solubility call must not enter the next solve)
        while len(steps) < 3: steps.append(dict(steps[-1]))
        for q, st in enumerate(steps[:3]):
            st['mult'] = None; st['add'] = None; st['sol'] = round(rng.random() * 0.6, 4) if q == 1 else None
    return {'t': 'sle3', 'ids': [members[k] for k in perm], 'solute': a, 'solv': solv, 'flows': [round(10 ** rng.uniform(-2, 2), 4) for _ in [a] + solv], 'dist': rng.choice([0.0, 0.0, 1.0, round(rng.random(), 3)]),
            'pkg': pkg, 'obj': rng.choice(['multistream', 'multistream', 'stream', 'indexer']), 'act': (rng.choice([None, round(rng.uniform(0.2, 5), 3)]) if ideal else None), 'act_ctor': rng.random() < 0.5, 'steps': steps}


def rows_of(imol):
    return {p: imol[p].to_array().copy() for p in ('s', 'l')}


def run_sle3(case, rec):
    ids = case['ids']; pkg = case['pkg']; kind = case['obj']
    th = thermo3(ids, pkg); tmo.settings.set_thermo(th)
    ideal = pkg in ('ideal-gamma', 'ideal()')
    solute = case['solute']; j = ids.index(solute); solv = case['solv']
    chem = th.chemicals[solute]; Tm = chem.Tm
    m = case['flows'][0]; base = dict(zip(solv, case['flows'][1:]))
    cur = dict(base)
    act = case['act']
    def Tof(st):
        return float(min(450.0, max(250.0, Tm + st['dTm']))) if st['dTm'] is not None else st['T']
    T0 = Tof(case['steps'][0])
    # the object that offers the calculation
    if kind == 'indexer':
        imol = tmo.indexer.MolarFlowIndexer(phases=('s', 'l'), chemicals=th.chemicals)
        tc = tmo.ThermalCondition(T0, 101325.)
        if act and case['act_ctor']: sle = tmo.equilibrium.SLE(imol, tc, th, activity_coefficient=act); rec.hit('sle3:act-by-constructor')
        else:
            sle = tmo.equilibrium.SLE(imol, tc, th)
            if act: sle.activity_coefficient = act
    else:
        if kind == 'stream':
            s = tmo.Stream(None, phase='l', T=T0, thermo=th)
            s.imol[solute] = m
            for i, v in cur.items(): s.imol[i] = v
        else: s = tmo.MultiStream(None, phases=('s', 'l'), T=T0, thermo=th)
        sle = s.sle          # (a single-phase stream becomes a two-phase one here)
        imol = s.imol; tc = s._thermal_condition
        if act: sle.activity_coefficient = act
    def write_others(im):
        for i in ids:
            if i != solute: im['l', i] = cur.get(i, 0.0)
    def write_solute(im):
        im['s', solute] = m * case['dist']; im['l', solute] = m - m * case['dist']
    def helper(rw, T):
        h = tmo.MultiStream(None, phases=('s', 'l'), T=T, thermo=th)
        for p_ in ('s', 'l'):
            for i, v in zip(ids, rw[p_]):
                if v: h.imol[p_, i] = float(v)
        return h
    install_probe(); install_probe2()
    rec.hit('sle3'); rec.hit('sle3:pkg=' + pkg); rec.hit('sle3:obj=' + kind)
    if len(case['steps']) > 1: rec.hit('sle3:ramp')
    given_before = False; computed_before = False
    nontrivial = False
    for k, st in enumerate(case['steps']):
        if st['mult']:
            for i, f_ in zip(solv, st['mult']): cur[i] = base[i] * f_
            rec.hit('sle3:solvents-changed')
        if st['add']: cur[st['add'][0]] = st['add'][1]; rec.hit('sle3:member-added')
        write_others(imol)
        if k == 0 or st['reset']: write_solute(imol)
        else: rec.hit('sle3:no-reset')
        if st['act'] != 'keep':
            if st['act'] != act: rec.hit('sle3:act-changed')
            act = st['act']; sle.activity_coefficient = act
        T = Tof(st); tc.T = T
        before = rows_of(imol)
        present = float(before['s'][j] + before['l'][j])
        rest0 = float(before['l'].sum() - before['l'][j])
        pure = rest0 == 0
        absent_member = any(before['l'][q] + before['s'][q] == 0 for q in range(len(ids)))
        if absent_member: rec.hit('sle3:absent-member')
        x_all = present / (present + rest0)       # the mole fraction at which all of the solute is dissolved
        sol = st['sol']; boundary = False
        if sol is not None and not pure:
            if isinstance(sol, str): sol = {'all': x_all, 'all-': x_all * (1 - 1e-6), 'all+': min(1.0, x_all * (1 + 1e-6))}[sol]; boundary = True
            elif sol in (0.0, 1.0, 1e-9): boundary = True
            kw = {'solubility': sol}
        else: kw = {}
        given = bool(kw)
        spec = st['spec']
        if before['l'][j] / (before['l'].sum() or 1.0) > 0 and before['s'][j] == 0 and T < Tm: rec.hit('sle3:supersaturated-start')     # (everything dissolved below the melting point: the call has to precipitate)
        try:
            if spec == 'H':
                lo = helper(before, T); lo.imol['s', solute] = present; lo.imol['l', solute] = 0.0
                hi = helper(before, T); hi.imol['l', solute] = present; hi.imol['s', solute] = 0.0
                target = lo.H + st['hfrac'] * (hi.H - lo.H)
                ckw = dict(kw, H=target)
            else: ckw = dict(kw, T=T)
            _APPLIED.clear(); _SOLVED.clear()
            sle(solute, **ckw)
            solved = dict(_SOLVED); applied = dict(_APPLIED)
        except Exception as e:
            # (a liquid other than the solute is present whenever the call is not the pure-solute one: no raise is explained by the inputs)
            rec.exception('sle', e, what=f'sle({solute}, {spec} given, {kw}) on {ids} ({pkg}, {kind}, step {k}) raised {type(e).__name__}: {str(e)[:140]}'); return
        after = rows_of(imol)
        Tend = float(tc.T)
        if spec == 'H': rec.hit('sle3:spec=H')
        what = f'sle({solute}, {"T=" + repr(T) if spec == "T" else "H given"}{", solubility=" + repr(sol) if given else ""}) on {ids} [{pkg}, {kind}, call {k + 1} of {len(case["steps"])}, activity_coefficient={act}]'
        others_same = all(np.array_equal(np.delete(after[p_], j), np.delete(before[p_], j)) for p_ in ('s', 'l'))
        rec.check(others_same, 'sle:solute-only', f'rows/ramp/{kind}', f'{what} changed chemicals other than the solute: before {before} after {after}')
        tot = after['s'][j] + after['l'][j]
        rec.check(abs(tot - present) <= 1e-12 * present and after['s'][j] >= 0 and after['l'][j] >= 0, 'sle:solute-only', f'solute-total/ramp/{kind}', f'{what}: solute total changed {present!r} -> {tot!r} (s {after["s"][j]}, l {after["l"][j]})')
        if pure:
            if spec == 'T' and T != Tm:
                if T > Tm: rec.check(abs(after['l'][j] - present) <= 1e-12 * present and after['s'][j] == 0, 'sle:pure', f'above-Tm/ramp/{kind}', f'{what}: pure solute at T={T!r} > Tm={Tm!r}: liquid {after["l"][j]}, solid {after["s"][j]}')
                else: rec.check(abs(after['s'][j] - present) <= 1e-12 * present and after['l'][j] == 0, 'sle:pure', f'below-Tm/ramp/{kind}', f'{what}: pure solute at T={T!r} < Tm={Tm!r}: liquid {after["l"][j]}, solid {after["s"][j]}')
            nontrivial = True
        else:
            liq = after['l'].sum()
            xl = after['l'][j] / liq if liq else 0.0
            solid = after['s'][j]
            hs = '/H-spec' if spec == 'H' else ''
            if given:
                rec.hit('sle3:given')
                if boundary: rec.hit('sle3:given-boundary')
                rec.check(xl <= max(sol, 0.0) + 1e-9 or (solid == 0 and xl <= x_all + 1e-12), 'sle:solubility', f'given/ramp/{kind}' + ('/boundary-value' if boundary else '') + hs,
                          f'{what}: liquid mole fraction of the solute {xl!r} exceeds the given solubility {sol!r} (solid left: {solid!r}; all dissolved would be {x_all!r})', residual=max(0.0, xl - sol))
                given_before = True
            else:
                require_probes(rec, applied, solved, what)
                judge_returned(rec, solved, xl, solid, x_all, 'ideal-package' if ideal else 'activity-model', f'/ramp/pkg={pkg}/{kind}' + hs, what)
                if ideal and spec == 'T': judge_eutectic(rec, chem, T, act, xl, solid, x_all, f'/ramp/pkg={pkg}/{kind}', what)
                elif spec == 'T': judge_fixed_point(rec, th, chem, j, T, after['l'], solid, 'sle3', f'/ramp/pkg={pkg}/{kind}', what, applied)
                if given_before: rec.hit('sle3:computed-after-given')
            if 0 < after['l'][j] < present: nontrivial = True
        if k:
            # the same call by a fresh solver on a fresh stream holding the same rows: what the solver remembers from its earlier calls must not matter
            try:
                f = helper(before, T)
                fs = f.sle
                if act: fs.activity_coefficient = act
                fs(solute, **ckw)
                rf = rows_of(f.imol)
                dev = max(float(np.abs(rf[p_] - after[p_]).max()) for p_ in ('s', 'l')) / max(present, 1e-300)
                rec.hit('sle3:history')
                hk = ('given' if given else 'computed') + (f'/{"ideal-package" if ideal else "activity-model"}' if not given else '') + hs
                if not given and given_before: hk += '/after-given-solubility' + ('/package-member-absent' if absent_member else '')
                rec.check(dev <= 1e-7, 'sle:history', 'ramp/' + hk, f'{what} after {k} earlier calls on the same solver differs from a fresh solver on the same rows by {dev:.3g} of the solute: '
                          f's/l = {after["s"][j]!r}/{after["l"][j]!r} vs fresh {rf["s"][j]!r}/{rf["l"][j]!r} (steps: {case["steps"][:k + 1]})', residual=dev)
            except Exception as e:
                if numeric_failure(e): refusal(rec, 'sle3 fresh-solver', e)
                else: rec.exception('sle:history/fresh-solver', e, what=f'{what}: the same call by a fresh solver on the same rows raised {type(e).__name__}: {str(e)[:140]} (the call after the earlier calls returned)')
        if not given: computed_before = True
    if nontrivial: rec.mark_nontrivial(case_hash(case))


def run_case(case, rec):
    rec.begin_case(case)
    with warnings.catch_warnings():
        warnings.simplefilter('ignore')
        try:
            (run_sle if case['t'] == 'sle' else run_sle2 if case['t'] == 'sle2' else run_sle3 if case['t'] == 'sle3' else run_lle)(case, rec)
        except Exception as e:
            rec.exception('harness', e, what=f'harness error: {type(e).__name__}: {e}')


def replay(case, rec):
    run_case(case, rec)


REGRESSION = [
    # sle(H=...) with a solvent in which the solute is practically insoluble, enthalpy inside the melting plateau: the temperature iteration has no fixed point
    {'t': 'sle2', 'ids': ['Methanol', 'Water', 'Tetradecanol'], 'solute': 'Tetradecanol', 'other': None, 'flows': [0.0, 0.0221, 0.0833], 'dist': 0.0, 'other_s': 0.0, 'other_l': 0.0, 'T': 276.27, 'spec': 'H',
     'hfrac': 0.508, 'P': None, 'solubility': None, 'gamma': None, 'act': None, 'Tedge': None},
]


def ceilings(rec):
    """coverage floors and refusal ceilings of one shard.  They say nothing about the property itself: a shard that misses them makes the run inconclusive (harness error).
    - two-liquid results per LLE case: 0.89 over the quick seeds 0-3 of the unchanged library (0.80 in the poorest shard); below 0.6 the two-liquid clauses (equal-activity, top-chemical, scale) lose their footing;
    - counted raises: LLE 0.002 of the cases of the unchanged library, SLE (second chemical present as solid only) 0.002; ceilings 0.05 / 0.01 with a floor of 4 / 8 events."""
    n_lle = rec.reach.get('lle-case', 0); n_two = rec.reach.get('lle:two-liquids', 0); n_ref = rec.reach.get('raised:lle', 0)
    n_sle = rec.cases - n_lle
    n_sref = sum(v for k, v in rec.reach.items() if k.startswith('raised:sle'))
    rec.hit('lle:floor-checked'); rec.hit('refusal-ceiling-checked')
    if n_lle >= 30 and n_two + n_ref < 0.6 * n_lle:
        rec.exception('equal-activity/floor', RuntimeError(f'only {n_two} of {n_lle} liquid-liquid cases of this shard returned two liquids (floor 0.6): the two-liquid clauses are not exercised'))
    if n_ref > max(4, 0.05 * n_lle):
        rec.exception('lle/refusal-ceiling', RuntimeError(f'{n_ref} of {n_lle} liquid-liquid cases of this shard ended in a counted raise (ceiling 0.05): {rec.refusals}'))
    if n_sref > max(8, 0.01 * n_sle):
        rec.exception('sle/refusal-ceiling', RuntimeError(f'{n_sref} counted raises in {n_sle} solid-liquid cases of this shard (ceiling 0.01): {rec.refusals}'))


def run(rec, rng, tier, shard, nshards):
    n = 120 if tier == 'quick' else 2000
    if shard == 0:
        for case in REGRESSION: run_case(case, rec)
    for i in range(n):
        case = gen_case(rng)
        run_case(case, rec)
        if i % 41 == 0: rec.sample(case)
    # the solid-liquid cases are cheap (no global optimiser): many more of them
    for i in range(1500 if tier == 'quick' else 20000):
        run_case(gen_sle(rng), rec)
    for i in range(700 if tier == 'quick' else 9000):
        run_case(gen_sle2(rng), rec)
    for i in range(450 if tier == 'quick' else 6000):
        run_case(gen_sle3(rng), rec)
    ceilings(rec)
