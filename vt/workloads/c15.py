"""C15 — liquid-liquid and solid-liquid splits meet their equilibrium and labelling rules.

Monitor: the two liquid rows (and the solid row) of the real stream are recorded after each lle / sle call; activities
x_i*gamma_i are recomputed from thermo.Gamma, and results after call histories are compared with a fresh solver on a
fresh stream.
"""
import warnings
import numpy as np
import thermosteam as tmo
from vt.core import case_hash

PID = 'C15'
RULE = ('LLE: mixtures of 2-5 chemicals containing a partially miscible pair (water with octane / hexane / toluene / butanol / octanol / ethyl acetate, plus alcohols/acetone), T 285-355 K, methods pseudo equilibrium / shgo / '
        'differential evolution, scale factors 10^U(-3,3), every top chemical, histories of 1-4 earlier calls at other temperatures (>= 2 K away, up and down) or compositions on the same stream followed by the judged call with '
        'use_cache True and False, compared with a fresh solver on a fresh stream. SLE: glucose / tetradecanol / acetic acid in 1-3 solvents, T 250-450 K, given and computed solubility, pure solute above / below Tm. '
        'non-trivial = two non-empty liquid phases (LLE) / solute partly dissolved or a pure solute (SLE); distinct = hash of the case')
MIN_NONTRIVIAL = {'quick': 150, 'thorough': 3000}
ASSUMPTIONS = ['equal-activity bound (relative to the largest activity): 1e-3 for every method; larger deviations of the Gibbs-minimising methods are classified by mechanism (component at the starting midpoint / Gibbs energy within 1e-6 of the polished minimum / beyond it) and reported under those keys', 'labels l/L are compared up to a swap when no top chemical is named']
PAIRS = [('Water', 'Octane'), ('Water', 'Hexane'), ('Water', 'Toluene'), ('Water', 'Butanol'), ('Water', 'Octanol'), ('Water', 'EthylAcetate')]
EXTRA = ('Ethanol', 'Methanol', 'Acetone', 'Propanol', 'AceticAcid')
_th = {}


def required(tier):
    return ['equal-activity', 'scale', 'top-chemical', 'history', 'history:use_cache', 'history:no-cache', 'history:T-decrease', 'sle:solute-only', 'sle:solubility', 'sle:pure', 'sle:gamma=ideal', 'sle:solid-in-feed', 'sle:history', 'sle:history:pure-then-solvent', 'method:shgo', 'method:pseudo equilibrium']


def thermo(ids, gamma=None):
    k = (tuple(ids), gamma)
    if k not in _th:
        kw = {'Gamma': tmo.equilibrium.IdealActivityCoefficients} if gamma == 'ideal' else {}
        _th[k] = tmo.Thermo(tmo.Chemicals(list(ids), cache=True), **kw)
    return _th[k]


def gen_sle(rng):
    solute = rng.choice(['Glucose', 'Tetradecanol', 'AceticAcid'])
    solv = rng.sample(['Water', 'Ethanol', 'Methanol', 'Octane'], rng.randrange(0, 4))
    ids = [solute] + solv
    flows = [round(10 ** rng.uniform(-2, 2), 4) for _ in ids]
    r = rng.random()
    if r < 0.35: sol = None
    elif r < 0.6: sol = round(rng.random() * 0.6, 4)
    else:
        # around the solubility that is just enough to dissolve all of the solute (the boundary between 'solid remains' and 'all dissolved')
        S = sum(flows[1:]); m = flows[0]
        sol = round(min(0.999, m / (S + m) * rng.uniform(0.6, 1.6)), 6) if S else round(rng.random() * 0.6, 4)
    return {'t': 'sle', 'ids': ids, 'flows': flows, 'T': round(rng.uniform(250, 450), 2), 'dist': rng.choice([0.0, 1.0, round(rng.random(), 3), round(rng.random(), 3)]),
            'solubility': sol, 'prior': rng.random() < 0.4, 'gamma': rng.choice([None, None, 'ideal']),
            # earlier calls on the same stream (and therefore the same remembered solver): other solvent amounts incl. none at all (pure solute), other T, given / computed solubility
            'shist': [{'mult': [rng.choice([0.0, 0.0, 1.0, round(rng.uniform(0.2, 3), 3)]) for _ in solv], 'T': round(rng.uniform(250, 450), 2),
                       'sol': rng.choice([None, None, round(rng.random() * 0.6, 4)])} for _ in range(rng.choice([0, 0, 1, 2, 3]))]}


def gen_case(rng):
    if rng.random() < 0.45:
        return gen_sle(rng)
        solute = rng.choice(['Glucose', 'Tetradecanol', 'AceticAcid'])
        solv = rng.sample(['Water', 'Ethanol', 'Methanol', 'Octane'], rng.randrange(0, 4))
        ids = [solute] + solv
        return {'t': 'sle', 'ids': ids, 'flows': [round(10 ** rng.uniform(-2, 2), 4) for _ in ids], 'T': round(rng.uniform(250, 450), 2), 'dist': round(rng.random(), 3),
                'solubility': rng.choice([None, None, round(rng.random() * 0.6, 4)]), 'prior': rng.random() < 0.4}
    base = rng.choice(PAIRS)
    extra = rng.sample([e for e in EXTRA], rng.randrange(0, 4))
    ids = list(base) + extra
    flows = [round(10 ** rng.uniform(-0.5, 1.5), 4) for _ in ids]
    flows[0] = round(10 ** rng.uniform(0.3, 1.5), 4); flows[1] = round(10 ** rng.uniform(0.3, 1.5), 4)     # the immiscible pair dominates
    for k in range(2, len(ids)): flows[k] = round(flows[k] * 0.1, 5)
    hist = []
    for _ in range(rng.randrange(0, 5)):
        hist.append({'dT': rng.choice([-1, 1]) * round(rng.uniform(2, 40), 2), 'mult': [round(rng.uniform(0.3, 3), 3) for _ in ids] if rng.random() < 0.5 else None})
    return {'t': 'lle', 'ids': ids, 'flows': flows, 'T': round(rng.uniform(285, 355), 2), 'method': rng.choices(['pseudo equilibrium', 'shgo', 'differential evolution'], [10, 3, 0.5])[0],
            'k': round(10 ** rng.uniform(-3, 3), 6), 'top': rng.choice([None] + ids[:2] + ids), 'hist': hist, 'use_cache': rng.random() < 0.5}


def numeric_failure(e):
    # C15 speaks about calculations that return; a raise (documented refusal or numerical failure inside a solver) is counted, not judged.
    # Programming errors in the call path are still reported.
    return not isinstance(e, (TypeError, AttributeError, KeyError, IndexError, NameError, UnboundLocalError))


def trivial(r):
    """both liquid rows hold material of one and the same composition (the 'trivial solution': a homogeneous liquid divided arbitrarily)"""
    l, L = r['l'], r['L']
    if not (l.sum() > 0 and L.sum() > 0): return False
    return bool(np.abs(l / l.sum() - L / L.sum()).max() <= 1e-6)


def gibbs_gap(th, ids, z, L, T):
    """Gibbs energy (per mole of feed, the solver's own objective) of the returned split minus that of the nearest local minimum found by polishing it with Nelder-Mead."""
    from scipy.optimize import minimize
    from thermosteam.equilibrium.lle import lle_objective_function
    G = th.Gamma(th.chemicals)
    f = lambda x: float(lle_objective_function(np.clip(np.asarray(x, float), 0, z).copy(), z, T, G.f, G.args))
    g0 = f(L)
    res = minimize(f, L, method='Nelder-Mead', bounds=[(0, zi) for zi in z], options=dict(xatol=1e-12, fatol=1e-14, maxiter=20000, maxfev=40000))
    return g0 - float(res.fun)


def rows(s):
    return {p: s.imol[p].to_array().copy() for p in s.phases}


def fresh_lle(th, ids, flows, T, method, top):
    s = tmo.MultiStream(None, phases=('L', 'l'), T=T, thermo=th)
    for i, v in zip(ids, flows): s.imol['l', i] = v
    lle = s.lle; lle.method = method
    lle(T, top_chemical=top)
    return s


def run_lle(case, rec):
    ids = case['ids']; th = thermo(ids); tmo.settings.set_thermo(th)
    T = case['T']; method = case['method']; top = case['top']
    flows = np.array(case['flows'], float)
    rec.hit('method:' + method)
    mtag = 'method=' + method
    try:
        ref = fresh_lle(th, ids, flows, T, method, top)
    except Exception as e:
        if numeric_failure(e): rec.refuse(type(e).__name__); return
        rec.exception('lle', e, what=f'lle({method}) on {ids} raised {type(e).__name__}: {str(e)[:140]}'); return
    r = rows(ref)
    l, L = r['l'], r['L']
    F = flows.sum()
    two = l.sum() > 1e-9 * F and L.sum() > 1e-9 * F
    # conservation and sign are C03's; here: equal activities
    if two:
        G = th.Gamma(th.chemicals)
        xl = l / l.sum(); xL = L / L.sum()
        al = xl * G(xl.copy(), T); aL = xL * G(xL.copy(), T)
        m = (xl >= 1e-8) & (xL >= 1e-8)
        dev = float(np.abs(al - aL)[m].max() / max(al[m].max(), aL[m].max())) if m.any() else 0.0
        gibbs = method in ('shgo', 'differential evolution')
        bound = 1e-3
        sfx = ''
        if dev > bound and gibbs:
            # mechanism of the mismatch, by what can be observed on the result:
            #  - a chemical sits exactly at the optimiser's starting point (half of it in each liquid): the optimiser never moved that variable;
            #  - otherwise the Gibbs energy of the returned split (the solver's objective, per mole of feed) is compared with the minimum obtained by
            #    polishing it: within the configured tolerance (f_tol / tol = 1e-6) the optimiser stopped where it was told to, although the
            #    activities (of components that barely move the objective) still differ; beyond it the optimiser stopped early.
            frac = L / (l + L + 1e-300)
            if any(flows[k_] > 0 and abs(frac[k_] - 0.5) <= 1e-9 for k_ in range(len(ids))): sfx = '/component-left-at-midpoint'
            else:
                gap = gibbs_gap(th, ids, flows / F, L / F, T)
                rec.hit('gibbs-gap-evaluated')
                sfx = '/within-objective-tolerance' if gap <= 1e-6 else '/gibbs-gap>1e-6'
        rec.check(dev <= bound, 'equal-activity', mtag + sfx, f'lle({method}) at T={T}: activities differ between the liquids by {dev:.3g} of the largest activity (l: {al.tolist()}, L: {aL.tolist()}; ids={ids})', residual=dev)
        # top chemical has a mass fraction in L at least as high as in l
        if top is not None:
            MW = th.chemicals.MW; j = ids.index(top)
            wL = (L * MW)[j] / (L * MW).sum(); wl = (l * MW)[j] / (l * MW).sum()
            rec.check(wL >= wl - 1e-12, 'top-chemical', mtag, f'top chemical {top}: mass fraction in L {wL!r} < in l {wl!r}')
        # scaling the feed scales both rows
        try:
            k = case['k']
            sc = fresh_lle(th, ids, flows * k, T, method, top)
            rs = rows(sc)
            # resolution of each method: fixed-point iteration 1e-7, shgo f_tol 1e-6 -> 1e-5, stochastic optimiser 2e-2 (all relative to the feed)
            tol = {'pseudo equilibrium': 1e-7, 'shgo': 1e-5, 'differential evolution': 2e-2}[method] * F * k
            ok = np.allclose(rs['l'], k * l, rtol=0, atol=tol) and np.allclose(rs['L'], k * L, rtol=0, atol=tol)
            if not ok and top is None:
                ok = np.allclose(rs['L'], k * l, rtol=0, atol=tol) and np.allclose(rs['l'], k * L, rtol=0, atol=tol)
            sfx = '/trivial-solution' if (not ok and (trivial(rs) or trivial({'l': l, 'L': L}))) else ''
            rec.check(ok, 'scale', mtag + sfx, f'lle({method}) of {k}*feed is not {k} times the split of the feed: l {rs["l"].tolist()} vs {(k * l).tolist()}')
        except Exception as e:
            if numeric_failure(e): rec.refuse(type(e).__name__)
            else: rec.exception('scale', e, what=f'lle of the scaled feed raised {type(e).__name__}: {str(e)[:120]}')
        rec.mark_nontrivial(case_hash(case))
    # history: earlier calls on the same stream, then the judged call
    if case['hist']:
        s = tmo.MultiStream(None, phases=('L', 'l'), T=T, thermo=th)
        lle = s.lle; lle.method = method
        try:
            decreased = False
            Tprev = None
            for h in case['hist']:
                f2 = flows * np.array(h['mult']) if h['mult'] else flows
                s.imol['L'] = 0
                for i, v in zip(ids, f2): s.imol['l', i] = v
                lle(T + h['dT'], top_chemical=top)
                Tprev = T + h['dT']
            if Tprev is not None and T < Tprev: decreased = True
            s.imol['L'] = 0
            for i, v in zip(ids, flows): s.imol['l', i] = v
            lle(T, top_chemical=top, use_cache=case['use_cache'])
        except Exception as e:
            if numeric_failure(e): rec.refuse(type(e).__name__); return
            rec.exception('history/' + mtag, e, what=f'lle history ({method}) raised {type(e).__name__}: {str(e)[:120]}'); return
        rh = rows(s)
        tol = {'pseudo equilibrium': 1e-6, 'shgo': 1e-5, 'differential evolution': 2e-2}[method] * F
        ok = np.allclose(rh['l'], l, rtol=0, atol=tol) and np.allclose(rh['L'], L, rtol=0, atol=tol)
        if not ok and top is None:
            ok = np.allclose(rh['L'], l, rtol=0, atol=tol) and np.allclose(rh['l'], L, rtol=0, atol=tol)
        dev = float(min(np.abs(rh['l'] - l).max(), np.abs(rh['L'] - l).max()) / F)
        ctag = 'use_cache' if case['use_cache'] else 'no-cache'
        rec.hit('history:' + ctag)
        if decreased: rec.hit('history:T-decrease')
        tsfx = '/trivial-solution' if (not ok and method != 'pseudo equilibrium' and (trivial(rh) or trivial({'l': l, 'L': L}))) else ''
        rec.check(ok, 'history', f'{mtag}/{ctag}' + ('/T-decrease' if decreased else '') + tsfx,
                  f'lle({method}, use_cache={case["use_cache"]}) at T={T} after {len(case["hist"])} earlier calls (last at T={Tprev}) differs from a fresh solver by {dev:.3g} of the feed: l {rh["l"].tolist()} vs fresh {l.tolist()}',
                  residual=dev)


def run_sle(case, rec):
    ids = case['ids']; th = thermo(ids, case.get('gamma')); tmo.settings.set_thermo(th)
    solute = ids[0]; T = case['T']
    if case.get('gamma'): rec.hit('sle:gamma=' + case['gamma'])
    if case['dist'] > 0: rec.hit('sle:solid-in-feed')
    s = tmo.MultiStream(None, phases=('s', 'l'), T=T, thermo=th)
    s.imol['s', solute] = case['flows'][0] * case['dist']; s.imol['l', solute] = case['flows'][0] * (1 - case['dist'])
    for i, v in zip(ids[1:], case['flows'][1:]): s.imol['l', i] = v
    before = rows(s)
    present = float(before['s'][0] + before['l'][0])
    # a given solubility is only meaningful with a solvent (the pure-solute clause is about the melting point)
    kw = {'solubility': case['solubility']} if (case['solubility'] is not None and len(ids) > 1) else {}
    def start(st):
        st.imol['s', solute] = case['flows'][0] * case['dist']; st.imol['l', solute] = case['flows'][0] * (1 - case['dist'])
        for i, v in zip(ids[1:], case['flows'][1:]): st.imol['l', i] = v
    try:
        for h in case.get('shist', []):
            for i, v, m_ in zip(ids[1:], case['flows'][1:], h['mult']): s.imol['l', i] = v * m_
            hk = {'solubility': h['sol']} if (h['sol'] is not None and any(h['mult'])) else {}
            try: s.sle(solute, T=h['T'], **hk)
            except Exception as e:
                if not numeric_failure(e): raise
            start(s)
            rec.hit('sle:history-step')
            if not any(h['mult']) and len(ids) > 1: rec.hit('sle:history:pure-then-solvent')
        if case['prior']: s.sle(solute, T=min(T + 15, 450))       # an earlier call on the same solver
        if case.get('shist') or case['prior']: start(s)
        s.sle(solute, T=T, **kw)
    except Exception as e:
        if numeric_failure(e): rec.refuse(f'sle refused: {type(e).__name__}'); return
        rec.exception('sle', e, what=f'sle on {ids} (solubility={case["solubility"]}) raised {type(e).__name__}: {str(e)[:140]}'); return
    after = rows(s)
    j = 0
    if case.get('shist') or case['prior']:
        # the same call on a fresh stream (fresh solver) from the same starting rows
        f = tmo.MultiStream(None, phases=('s', 'l'), T=T, thermo=th); start(f)
        try:
            f.sle(solute, T=T, **kw)
            rf = rows(f)
            dev = max(float(np.abs(rf[p_] - after[p_]).max()) for p_ in ('s', 'l')) / max(present, 1e-300)
            rec.check(dev <= 1e-7, 'sle:history', 'given' if kw else 'computed', f'sle({solute}, T={T}{", solubility" if kw else ""}) after {len(case.get("shist", []))} earlier calls differs from a fresh stream by {dev:.3g} of the solute: '
                      f's/l = {after["s"][j]!r}/{after["l"][j]!r} vs fresh {rf["s"][j]!r}/{rf["l"][j]!r} (earlier calls: {case.get("shist")})', residual=dev)
        except Exception as e:
            if not numeric_failure(e): raise
            rec.refuse('fresh sle refused')
    others_same = all(np.array_equal(np.delete(after[p], j), np.delete(before[p], j)) for p in ('s', 'l'))
    rec.check(others_same, 'sle:solute-only', 'rows', f'sle changed chemicals other than the solute: before {before} after {after}')
    tot = after['s'][j] + after['l'][j]
    rec.check(abs(tot - present) <= 1e-12 * present and after['s'][j] >= 0 and after['l'][j] >= 0, 'sle:solute-only', 'solute-total', f'solute total changed {present!r} -> {tot!r} (s {after["s"][j]}, l {after["l"][j]})')
    Tm = th.chemicals[solute].Tm
    if len(ids) == 1:
        if T > Tm: rec.check(abs(after['l'][j] - present) <= 1e-12 * present and after['s'][j] == 0, 'sle:pure', 'above-Tm', f'pure {solute} at T={T} > Tm={Tm}: liquid {after["l"][j]}, solid {after["s"][j]}')
        else: rec.check(abs(after['s'][j] - present) <= 1e-12 * present and after['l'][j] == 0, 'sle:pure', 'below-Tm', f'pure {solute} at T={T} <= Tm={Tm}: liquid {after["l"][j]}, solid {after["s"][j]}')
        rec.mark_nontrivial(case_hash(case)); return
    xl = after['l'][j] / after['l'].sum() if after['l'].sum() else 0.0
    if kw:
        sol = case['solubility']
    else:
        try: sol = s.sle._solve_x(T)       # the solubility the solver computes at the final state
        except Exception: sol = None
    if sol is not None:
        rec.check(xl <= max(sol, 0.0) + 1e-9 or after['s'][j] == 0 and xl <= present / (present + sum(case['flows'][1:])) + 1e-12, 'sle:solubility',
                  'given' if kw else 'computed', f'liquid mole fraction of {solute} {xl!r} exceeds the solubility {sol!r} although solid remains ({after["s"][j]})', residual=max(0.0, xl - sol))
        if after['s'][j] > 0 and sol > 0:
            rec.check(abs(xl - sol) <= 1e-6, 'sle:solubility', 'saturated', f'solid {solute} remains but the liquid mole fraction {xl!r} is not the solubility {sol!r}', residual=abs(xl - sol))
    if 0 < after['l'][j] < present: rec.mark_nontrivial(case_hash(case))
    elif after['l'][j] in (0, present): rec.mark_nontrivial(case_hash((case['ids'], 'edge', round(T))))


def run_case(case, rec):
    rec.begin_case(case)
    with warnings.catch_warnings():
        warnings.simplefilter('ignore')
        try:
            (run_sle if case['t'] == 'sle' else run_lle)(case, rec)
        except Exception as e:
            rec.exception('harness', e, what=f'harness error: {type(e).__name__}: {e}')


def replay(case, rec):
    run_case(case, rec)


def run(rec, rng, tier, shard, nshards):
    n = 120 if tier == 'quick' else 2000
    for i in range(n):
        case = gen_case(rng)
        run_case(case, rec)
        if i % 41 == 0: rec.sample(case)
    # the solid-liquid cases are cheap (no global optimiser): many more of them
    for i in range(1500 if tier == 'quick' else 20000):
        run_case(gen_sle(rng), rec)
