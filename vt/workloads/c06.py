"""C06 — heat of reaction and adiabatic reaction close the energy balance.

Monitor: Reaction.dH is recomputed by the harness from heats of formation and latent heats; Hnet/H/Hf of the real stream
are recorded around isothermal and adiabatic reaction calls and the balances are evaluated.
"""
import numpy as np
import thermosteam as tmo
from thermosteam.exceptions import InfeasibleRegion
from vt.core import case_hash
from vt import rxn as R

PID = 'C06'
RULE = ('random balanced reactions (C05 generator) over 15 chemicals with known Hf; clauses: dH formula (mol/wt, phase-less/phase-tagged with latent heats), '
        'isothermal change of Hnet = dH*fed + sensible part (literal form at 298.15 K with every species in its reference phase), adiabatic closure with heat input Q; '
        'gas and liquid feeds 280-450 K; single/parallel/series/system. Coverage additions: dH with X=0, with Glucose (solid reference) and phases g/l/s (all six latent branches), dH of a '
        're-based copy (copy(basis=) and the basis setter) against the formula in the other basis; isothermal formation-enthalpy change of parallel/series/system = sum of member dH x reactant '
        'amount seen by the member (feed for parallel, running for series); sparse feeds (products start from zero); heat inputs worth up to +-100 K, Q by keyword and an explicit Q=0; '
        'streams on another property package. Conversion-update histories (kind hist, n/4 extra cases): handles (set[i], iteration items, negative index, items of a slice, slices, system parts by '
        'index/iteration/.reactions) taken before/between/after updates of the conversions (set.X = list/array/scalar, set.X[i]/[a:b] writes, set.X *= k, set.X = set.X, item.X = x, item *= k, item /= k, '
        'slice.X = ..., slice.X[j], slice[j].X, slice.X *= k, system.X = [...], Reaction.X / *= / /=) and snapshots (copy, re-based copy, basis setter on a copy, item copy, k*r, r*k, r/k, slice copy) '
        'taken before later updates: every handle reports dH with the conversion in force, every snapshot with the conversion it was made with; the set / an earlier item / a slice / a system part '
        'is then applied isothermally (formation-enthalpy change = sum of the handles\' dH x reactant seen) or adiabatically with Q. non-trivial = X>0, reactant fed, >=3 species; distinct = hash of the case. Oracle strengthening: every adiabatic call is also judged on the composition it leaves (dense model of the reaction, 1e-11) and on the sign and size of the temperature change (heat to absorb from the harness-side sum(dn*Hf), Q and the property models of a twin stream that no reaction code touches, over a heat capacity between the two end values +-3 %); closure bound 2e-6 K x C (twice the step tolerance of the T solver); InfeasibleRegion is a refusal only when the dense model finds a negative flow, a T-solve raise / an outlet outside 200-2500 K only when the harness cannot see the outlet within [max(250, T0-150), T0+150] K (enthalpy to carry against the twin stream at the two edges); the isothermal formation-enthalpy change is compared both with the library-reported dH and with the harness formula, to 1e-10 of the heat + 1e-13 of sum|n Hf|; a quarter of the adiabatic cases carry lean inerts (C of the size of the heat balanced); dH of the members of the parts of a system against the formula')
MIN_NONTRIVIAL = {'quick': 300, 'thorough': 10000}
ASSUMPTIONS = ['heats of formation, Hvap(298.15) and Hfus are read from the library chemicals (the check judges the wiring, not the data)',
               'isothermal clause away from the reference state uses the Kirchhoff-corrected identity (DESIGN C06)',
               'feasibility is the library rule on the final array (sum of negative entries below -1e-12 in basis units) evaluated on the dense model; cases the model finds infeasible are not judged here (C05 judges them)',
               'the estimate of the outlet temperature reads H and C of a twin stream (property models of the library, no reaction code); the mean heat capacity over the temperature change is taken to lie between the end values +-3 % (held with 0 % on 5800 sampled cases)']
T_BRACKET = 0.03          # margin on the two end values of the heat capacity between which the mean heat capacity of the temperature change must lie
HNET_TOL = 2e-11          # relative to |Hnet|: (Hnet1 - Hnet0) - (H1 - H0) - sum(dn*Hf)
# round numbers of the size of the heats of formation [kJ/kmol] - used by the generator only (to size lean cases), never by an oracle
HF_ROUND = {'H2': 0., 'O2': 0., 'N2': 0., 'Water': -286e3, 'CO': -110e3, 'CO2': -394e3, 'CH4': -75e3, 'Methanol': -239e3, 'Ethanol': -278e3, 'AceticAcid': -484e3, 'Ethylene': 52e3,
            'Propane': -105e3, 'Glucose': -1270e3, 'Glycerol': -669e3, 'Acetone': -248e3, 'EthylAcetate': -479e3}
GAS_REF = ('H2', 'O2', 'N2', 'CO', 'CO2', 'CH4', 'Ethylene', 'Propane')
LIQ_REF = ('Water', 'Methanol', 'Ethanol', 'AceticAcid', 'Glycerol', 'Acetone', 'EthylAcetate')
NOGLU = tuple(i for i in R.IDS if i != 'Glucose')


def required(tier):
    return ['dH', 'dH:tagged', 'dH:wt', 'isothermal', 'isothermal-literal', 'adiabatic', 'adiabatic:Q', 'adiabatic:no-conversion+Q', 'dH:set-item', 'comb:parallel', 'comb:series', 'comb:system',
            'dH:X=0', 'dH:solid-phase', 'dH:solid-reference', 'dH:rebased', 'isothermal:set-dH-times-fed', 'feed:sparse', 'adiabatic:Q-large', 'adiabatic:Q-keyword', 'adiabatic:Q=0-explicit',
            'stream:other-package',
            'adiabatic:composition-judged', 'adiabatic-composition', 'adiabatic:outlet-T-judged', 'adiabatic-T', 'adiabatic:lean-inerts', 'isothermal:model-dH-times-fed', 'hist:iso:model-dH-times-fed',
            'dH:system-member',
            'hist', 'hist:dH', 'hist:fresh-after-update', 'hist:handle-before-update', 'hist:handle-after-update', 'hist:set-assign', 'hist:subset-assign', 'hist:subset-route', 'hist:item-route', 'hist:system-assign',
            'hist:snapshot', 'hist:snapshot-source-updated', 'hist:iso', 'hist:iso:top', 'hist:iso:item', 'hist:iso:subset', 'hist:iso:part', 'hist:adiabatic', 'hist:apply-held-subset',
            'hist:handles:getitem', 'hist:handles:iter', 'hist:handles:neg-index', 'hist:handles:subset-item', 'hist:handles:self',
            'hist:route:assign-list', 'hist:route:assign-array', 'hist:route:assign-scalar', 'hist:route:elem', 'hist:route:slice-write', 'hist:route:imul', 'hist:route:self-assign',
            'hist:route:item-assign', 'hist:route:item-imul', 'hist:route:item-itruediv', 'hist:route:subset-assign', 'hist:route:subset-elem', 'hist:route:subset-item-assign',
            'hist:route:subset-imul', 'hist:route:single-assign', 'hist:route:single-imul', 'hist:route:single-itruediv',
            'hist:snap:set-copy', 'hist:snap:set-copy-rebased', 'hist:snap:subset-copy', 'hist:snap:item-copy', 'hist:snap:item-copy-rebased', 'hist:snap:item-mul', 'hist:snap:copy', 'hist:snap:mul']


def gen_case(rng):
    kind = rng.choice(['dH', 'iso', 'iso', 'literal', 'adiabatic', 'adiabatic'])
    basis = rng.choice(['mol', 'mol', 'wt'])
    tagged = rng.random() < (0.5 if kind == 'dH' else 0.25)
    if kind == 'literal':
        tagged = False
        phase = rng.choice('lg')
        allowed = GAS_REF if phase == 'g' else LIQ_REF
    else:
        phase = rng.choice('lg'); allowed = NOGLU
    phases = None
    if kind == 'dH':
        allowed = R.IDS                                   # no stream is built: Glucose (solid reference, no gas enthalpy model) can take part
        if tagged and rng.random() < 0.5: phases = ['g', 'l', 's']
    phmap = {i: rng.choice(phases or 'lg') for i in R.IDS} if tagged else None
    def one():
        for _ in range(30):
            d = R.gen_reaction(rng, allowed=allowed, phases_p=0)
            if set(d['st']) <= set(allowed): break
        d['basis'] = basis
        d['X'] = rng.choice([1.0, 0.5, round(rng.uniform(0.01, 1), 4), round(rng.uniform(0.01, 0.3), 4)])
        if tagged: d['ph'] = {i: phmap[i] for i in d['st']}
        if kind == 'dH' and rng.random() < 0.1: d['X'] = 0.0
        return d
    comb = 'single' if kind in ('dH', 'literal') else rng.choice(['single', 'single', 'parallel', 'series', 'system'])
    if comb == 'single': members = [one()]
    elif comb in ('parallel', 'series'):
        members = [one() for _ in range(rng.randrange(2, 4))]
        for m in members: m['X'] = round(m['X'] / 3, 5)
    else:
        members = []
        for _ in range(2):
            k = rng.choice(['single', 'parallel', 'series'])
            rs = [one() for _ in range(1 if k == 'single' else 2)]
            for m in rs: m['X'] = round(m['X'] / 4, 5)
            members.append({'k': k, 'rx': rs})
    flows = {i: round(10 ** rng.uniform(2.5, 3.5), 3) for i in allowed}   # plentiful co-reactants: every side stays feasible
    for m in (members if comb != 'system' else [r for mm in members for r in mm['rx']]):
        flows[m['reactant']] = round(10 ** rng.uniform(0, 1.3), 4)
    sparse = kind != 'dH' and rng.random() < 0.4
    if sparse:
        # arbitrary non-negative compositions: species nobody consumes are absent with probability 0.5 (products then appear in an empty slot)
        consumed = {i for m in (members if comb != 'system' else [r for mm in members for r in mm['rx']]) for i, v in m['st'].items() if v < 0}
        for i in list(flows):
            if i not in consumed and rng.random() < 0.5: flows[i] = 0.0
    # boundary of the quantifier: nothing converts (X = 0 everywhere, or the reactants are absent from the feed) while heat may still be added
    noconv = None
    if kind in ('iso', 'adiabatic') and rng.random() < 0.15:
        noconv = rng.choice(['X=0', 'reactant-absent'])
        for m in (members if comb != 'system' else [r for mm in members for r in mm['rx']]):
            if noconv == 'X=0': m['X'] = 0.0
            else: flows[m['reactant']] = 0.0
    T = 298.15 if kind == 'literal' else round(rng.uniform(280, 450), 2)
    Q = 0.0
    if kind == 'adiabatic' and rng.random() < 0.6: Q = rng.choice([-1, 1]) * 10 ** rng.uniform(3, 6)
    case = {'kind': kind, 'comb': comb, 'members': members, 'tagged': tagged, 'phmap': phmap, 'basis': basis, 'flows': flows,
            'phase': phase, 'T': T, 'P': rng.choice([101325., 5e4, 5e5]), 'Q': Q, 'noconv': noconv}
    if phases: case['phases'] = phases
    if sparse: case['sparse'] = True
    if kind == 'dH' and rng.random() < 0.3: case['rebase'] = rng.choice(['copy', 'setter'])
    if kind == 'adiabatic':
        u = rng.random()
        if u < 0.25:
            # a heat input worth up to +-100 K of sensible heat (estimate: 40 / 100 kJ/kmol/K for gas / liquid)
            ntot = sum(flows.values()); frac_g = (sum(v for i, v in flows.items() if phmap[i] == 'g') / ntot) if tagged else (1.0 if phase == 'g' else 0.0)
            case['Q'] = round(ntot * (40. * frac_g + 100. * (1 - frac_g)) * rng.uniform(-100, 100), 3); case['Qlarge'] = True
        case['Qform'] = rng.choice(['positional', 'positional', 'keyword', 'explicit'])      # explicit: Q passed even when it is 0
    if kind in ('iso', 'adiabatic') and rng.random() < 0.2: case['foreign'] = True         # the stream lives on another property package than the reaction
    if kind == 'adiabatic': make_lean(case)
    return case


def make_lean(case):
    """a quarter of the adiabatic cases carry lean inerts (flows 10^U(0,1) instead of 10^U(2.5,3.5)): the heat capacity of the stream is then of the size of the heat being
    balanced, so that the closure bound (a multiple of C) resolves a small error of the heat of reaction or of Q. Co-reactants are topped up to what the dense model consumes,
    the reactants are scaled so that the reaction alone moves T by at most ~60 K and Q is worth 0.1-50 K. The draws come from a generator seeded by the case itself:
    the stream of the workload's generator (and with it every other case) is what it was before this addition."""
    import random
    from vt.workloads.c05 import model as dense
    sub = random.Random(case_hash(case))
    if sub.random() >= 0.25: return
    flat = flat_members(case)
    reactants = {m['reactant'] for m in flat}
    flows = case['flows']
    for i in flows:
        if i not in reactants and flows[i]: flows[i] = round(10 ** sub.uniform(0, 1), 4)
    key = (lambda i: (case['phmap'][i], i)) if case['tagged'] else (lambda i: i)
    def shortfall():
        fl0 = {key(i): v for i, v in flows.items() if v}
        fl = fl0; worst = {}
        groups = [(case['comb'], case['members'])] if case['comb'] != 'system' else [(m['k'], m['rx']) for m in case['members']]
        for k_, ds in groups:
            steps = [ds] if k_ == 'parallel' else [[d] for d in ds]
            for st in steps:
                fl = dense({'comb': 'parallel', 'members': st}, fl)
                for k, v in fl.items():
                    if v < worst.get(k, 0.0): worst[k] = v
        return worst, fl0, fl
    for _ in range(4):
        worst, fl0, fl = shortfall()
        if not worst: break
        for k, v in worst.items():
            i = k[1] if case['tagged'] else k
            if i not in reactants: flows[i] = round(flows[i] - v * sub.uniform(1.2, 3), 4)
    # size of the reaction heat against the heat capacity (estimates: 40 / 100 kJ/kmol/K for gas / liquid, heats of formation from a fixed table of round numbers)
    worst, fl0, fl = shortfall()
    def cest():
        return sum(v * (40. if ((case['phmap'][i] if case['tagged'] else case['phase']) == 'g') else 100.) for i, v in flows.items())
    dHf = sum((fl.get(k, 0.0) - fl0.get(k, 0.0)) * HF_ROUND[k[1] if case['tagged'] else k] for k in set(fl) | set(fl0))
    C = cest()
    if abs(dHf) > 60. * C:
        f = 60. * C / abs(dHf)
        for i in reactants: flows[i] = round(flows[i] * f, 6)
        C = cest()
    if case.get('Qlarge'): case['Q'] = round(C * sub.uniform(-100, 100), 3)
    elif case['Q']: case['Q'] = round((1 if case['Q'] > 0 else -1) * C * 10 ** sub.uniform(-1, 1.7), 3)
    case['lean'] = True


def latent(chem, phase):
    ref = chem.phase_ref
    if ref == phase: return 0.0
    hv = chem.Hvap(298.15); hf = chem.Hfus
    table = {('l', 'g'): hv, ('l', 's'): -hf, ('g', 'l'): -hv, ('g', 's'): -(hv + hf), ('s', 'l'): hf, ('s', 'g'): hf + hv}
    return table[(ref, phase)]


def expected_dH(d, th):
    ch = {c.ID: c for c in th.chemicals}
    r = d['reactant']; st = d['st']
    tot = 0.0
    for i, v in st.items():
        nu = v / -st[r]
        h = ch[i].Hf + (latent(ch[i], d['ph'][i]) if d.get('ph') else 0.0)
        tot += nu * h
    tot *= d['X']
    if d['basis'] == 'wt': tot /= ch[r].MW
    return tot


def build_stream(case, th):
    if case.get('foreign'): th = R.thermo(perm=True)
    if case['tagged']:
        s = tmo.MultiStream(None, phases=('g', 'l'), T=case['T'], P=case['P'], thermo=th)
        for i, v in case['flows'].items(): s.imol[case['phmap'][i], i] = v
    else:
        s = tmo.Stream(None, phase=case['phase'], T=case['T'], P=case['P'], thermo=th)
        for i, v in case['flows'].items(): s.imol[i] = v
    return s


def mol_by_id(s):
    out = {}
    data = s.imol.data
    rows = data.rows if hasattr(data, 'rows') else [data]
    for r in rows:
        for j, v in r.dct.items(): out[s.chemicals.IDs[j]] = out.get(s.chemicals.IDs[j], 0.0) + v
    return out


def mol_by_key(s, tagged):
    """molar flows of the real stream in the keying of the dense model: ID (single phase) or (phase, ID) (phase-tagged MultiStream)."""
    if not tagged: return mol_by_id(s)
    out = {}
    data = s.imol.data
    for ph, r in zip(s.phases, data.rows):
        for j, v in r.dct.items(): out[(ph, s.chemicals.IDs[j])] = out.get((ph, s.chemicals.IDs[j]), 0.0) + v
    return out


def flat_members(mcase):
    return mcase['members'] if mcase['comb'] != 'system' else [r for m in mcase['members'] for r in m['rx']]


def feed_keyed(case):
    key = (lambda i: (case['phmap'][i], i)) if case['tagged'] else (lambda i: i)
    return {key(i): v for i, v in case['flows'].items() if v}


def predict(mcase, fl0, ch):
    """the dense model's outlet flows of the applied object and the library's feasibility measure on them: the sum of the negative entries of the
    final array in the units of the reaction basis (mol, or mass for wt) - Reaction.__call__ raises InfeasibleRegion when it is below -1e-12."""
    from vt.workloads.c05 import model as dense
    expm = dense(mcase, fl0)
    wt = flat_members(mcase)[0]['basis'] == 'wt'
    neg = sum(v * (ch[k[1] if isinstance(k, tuple) else k].MW if wt else 1.0) for k, v in expm.items() if v < 0)
    return expm, neg


def twin_stream(case, th, fl):
    """a stream of the case's kind, package, T and P carrying the flows of the dense model (never passed to reaction code: only its property models are read)."""
    if case.get('foreign'): th = R.thermo(perm=True)
    if case['tagged']:
        s = tmo.MultiStream(None, phases=('g', 'l'), T=case['T'], P=case['P'], thermo=th)
        for (ph, i), v in fl.items():
            if v > 0: s.imol[ph, i] = v
    else:
        s = tmo.Stream(None, phase=case['phase'], T=case['T'], P=case['P'], thermo=th)
        for i, v in fl.items():
            if v > 0: s.imol[i] = v
    return s


TSOLVE_TYPES = (RuntimeError, ValueError, FloatingPointError, ZeroDivisionError, OverflowError)
TSOLVE_WORDS = ('extrapolate', 'Negative temperature', 'temperature', 'root could not be solved', 'divide', 'overflow', 'invalid value')


def judge_infeasible(rec, clause, suffix, neg):
    """InfeasibleRegion was raised: a refusal only when the dense model finds a negative flow too (the library tests the final array only)."""
    if neg < -1e-13:
        rec.hit(clause + ':infeasible-model-agrees'); rec.refuse('infeasible (the dense model agrees: a flow would be negative)'); return
    rec.check(False, clause, 'spurious-infeasible/' + suffix, f'InfeasibleRegion raised although the dense model predicts no negative flow (negative total {neg:.3g} in basis units)')


def judge_adiabatic(rec, case, th, ch, s, call, mcase, Q, suffix, where, H0, Hnet0, n0):
    """everything observed around one adiabatic_reaction call. `call()` performs it on `s`; mcase is the applied object as the dense model sees it.
    Returns True when the call returned normally and was judged."""
    T0 = case['T']; tagged = case['tagged']
    fl0 = feed_keyed(case)
    expm, neg = predict(mcase, fl0, ch)
    # the outlet temperature as the harness estimates it from its own quantities: formation enthalpies of the model's composition change (chemical data), the heat input,
    # and the sensible enthalpy / heat capacity the property models give for the model's outlet composition at the inlet temperature (a twin stream that no reaction code touches)
    est = None
    if neg >= -1e-13:
        try:
            tw = twin_stream(case, th, expm)
            Hiso = tw.H; C0m = tw.C
            dHf_ind = sum((expm.get(k, 0.0) - fl0.get(k, 0.0)) * ch[k[1] if tagged else k].Hf for k in set(expm) | set(fl0))
            needed = (H0 - Hiso) + Q - dHf_ind
            if C0m > 0 and needed == needed: est = (needed, C0m, needed / C0m)
        except Exception as e:
            rec.exception('adiabatic', e, what=f'{where}: reading H/C of a twin stream with the model outlet composition raised {type(e).__name__}: {str(e)[:200]}'); return False
    if est is None and neg >= -1e-13: rec.hit('adiabatic:no-estimate')
    def inside():
        """True when the harness can see that the outlet temperature lies within [max(250, T0 - 150), T0 + 150] K: the enthalpy the outlet must carry lies between the
        enthalpies the property models give the model composition at the two edges (H rises with T; a NaN or a model failure at an edge decides 'not inside')."""
        if est is None: return False
        try:
            target = Hiso + est[0]
            tw.T = max(250., T0 - 150.); Hlo = tw.H
            tw.T = T0 + 150.; Hhi = tw.H
            tw.T = T0
            return bool(Hlo <= target <= Hhi)
        except Exception:
            return False
    try:
        call()
    except InfeasibleRegion:
        judge_infeasible(rec, 'adiabatic', suffix, neg); return False
    except Exception as e:
        # the temperature solve left the range of the property models (the quantifier takes only heat inputs for which the outlet temperature stays inside it):
        # granted only when the harness' own estimate of the outlet temperature is far from the inlet or outside 250-1500 K
        if isinstance(e, TSOLVE_TYPES) and any(w in str(e) for w in TSOLVE_WORDS):
            if neg < -1e-13: rec.refuse('infeasible conversion: the T solve raised before/instead of InfeasibleRegion (not judged)'); return False
            if not inside():
                rec.hit('adiabatic:T-solve-refused-outside-range'); rec.refuse('outlet temperature outside the property models (the T solve raised; the harness estimate agrees)'); return False
            rec.check(False, 'adiabatic', 'T-solve-failed-inside-range/raised/' + suffix,
                      f'{where}: adiabatic_reaction raised {type(e).__name__}: {str(e)[:160]} although the harness estimates the outlet at {T0 + est[2]:.2f} K (inlet {T0} K, heat to absorb {est[0]:.6g} kJ/hr, C = {est[1]:.6g} kJ/hr/K)')
            return False
        rec.exception('adiabatic', e, what=f'{where}: adiabatic_reaction raised {type(e).__name__}: {str(e)[:200]}'); return False
    if neg < -1e-13:
        rec.refuse('the call returned although the dense model finds a negative flow (round-off boundary or infeasible: judged by C05, not here)'); return False
    T1 = s.T
    if not (200 < T1 < 2500):
        if not inside():
            rec.hit('adiabatic:T-solve-refused-outside-range'); rec.refuse('outlet temperature outside the property models (the harness estimate agrees)'); return False
        rec.check(False, 'adiabatic', 'T-solve-failed-inside-range/outlet-T/' + suffix,
                  f'{where}: adiabatic_reaction left T = {T1!r} although the harness estimates the outlet at {T0 + est[2]:.2f} K (inlet {T0} K, heat to absorb {est[0]:.6g} kJ/hr, C = {est[1]:.6g} kJ/hr/K)')
        return False
    # the reaction took place: composition against the dense model
    n1 = mol_by_key(s, tagged)
    fsc = max([abs(v) for v in fl0.values()] + [abs(v) for v in expm.values()] + [1e-300])
    worst = 0.0; bad = None
    for k in set(n1) | set(expm):
        e_ = max(expm.get(k, 0.0), 0.0); g_ = n1.get(k, 0.0)
        r_ = abs(g_ - e_) / (abs(e_) + 0.1 * fsc)
        if r_ > worst or r_ != r_: worst = r_; bad = (k, g_, e_)
        if r_ != r_: worst = float('inf'); break
    rec.hit('adiabatic:composition-judged')
    rec.check(worst <= 1e-11, 'adiabatic-composition', suffix,
              f'{where}: after adiabatic_reaction the flow of {bad[0] if bad else None} is {bad[1] if bad else None!r} but the dense model of the reaction gives {bad[2] if bad else None!r}', residual=worst)
    try:
        Hnet1 = s.Hnet; C1 = s.C
    except Exception as e:
        rec.exception('adiabatic', e, what=f'{where}: reading Hnet/C after adiabatic reaction raised {type(e).__name__}: {e}'); return False
    res = abs(Hnet1 - (Hnet0 + Q))
    # the library's T solve stops at steps below T_tol = 1e-6 K: two such steps of heat capacity, plus round-off of the two totals
    rec.check(res <= 2e-6 * C1 + 1e-12 * abs(Hnet0), 'adiabatic', suffix + ('/Q' if Q else ''),
              f'{where}: Hnet after {Hnet1!r} != Hnet before + Q = {Hnet0 + Q!r} (residual {res:.3g} kJ/hr, C={C1:.4g} kJ/hr/K, T {T0} -> {T1:.3f})', residual=res / max(C1, 1e-300))
    # sign and size of the temperature change: (heat to absorb) / (mean heat capacity), the mean lying between the values at the two ends
    if est is not None and C1 > 0:
        needed, C0m, _ = est
        phase_kept = tagged or s.phase == case['phase']
        if not phase_kept: rec.hit('adiabatic:phase-flipped-by-H-setter'); rec.refuse('the enthalpy setter moved the single-phase stream to the other phase (temperature change not judged)')
        else:
            # the mean heat capacity lies between the smallest and the largest value along the way: the two ends, and for a large temperature change (where the heat capacity
            # need not be monotonic, e.g. a liquid cooled by 100 K and more) seven interior temperatures of the reacted composition
            Cs = [C0m, C1]
            if abs(T1 - T0) > 30:
                try:
                    tw_ = s.copy()
                    for f_ in (0.125, 0.25, 0.375, 0.5, 0.625, 0.75, 0.875):
                        tw_.T = T0 + f_ * (T1 - T0); c_ = tw_.C
                        if c_ == c_ and c_ > 0: Cs.append(c_)
                    rec.hit('adiabatic:outlet-T/heat-capacity-sampled-along-the-way')
                except Exception: pass
            Cmin = min(Cs) * (1 - T_BRACKET); Cmax = max(Cs) * (1 + T_BRACKET)
            eps = 4e-6 + 1e-11 * abs(Hnet0) / Cmin
            lo, hi = (needed / Cmax, needed / Cmin) if needed >= 0 else (needed / Cmin, needed / Cmax)
            dT = T1 - T0
            rec.hit('adiabatic:outlet-T-judged')
            mid = 2 * needed / (C0m + C1)
            rec.check(lo - eps <= dT <= hi + eps, 'adiabatic-T', 'outlet/' + suffix,
                      f'{where}: T changed by {dT!r} K ({T0} -> {T1!r}) but the heat to absorb (Q - sum(dn*Hf) - sensible change at the inlet T = {needed:.6g} kJ/hr) over a heat capacity between '
                      f'{min(C0m, C1):.6g} and {max(C0m, C1):.6g} kJ/hr/K gives {lo:.6g} .. {hi:.6g} K', residual=abs(dT - mid) / max(abs(mid), 1.0))
    return True


def run_case(case, rec):
    from vt.workloads.c05 import build
    if case.get('kind') == 'hist': return run_hist(case, rec)
    rec.begin_case(case)
    th = R.thermo()
    ch = {c.ID: c for c in th.chemicals}
    kind = case['kind']
    tag = f'{case["comb"]}/{case["basis"]}/{"tagged" if case["tagged"] else "phase-less"}'
    if case.get("noconv"): tag += "/no-conversion"
    try:
        rx = build(case, th)
    except Exception as e:
        rec.exception('construct', e, what=f'constructing reaction raised {type(e).__name__}: {e}'); return
    rec.hit('comb:' + case['comb'])
    if case['comb'] in ('parallel', 'series'):
        # the heat of reaction reported by each member of a set (an item shares the set's conversion array)
        for k_, d in enumerate(case['members']):
            try: got = rx[k_].dH
            except Exception as e:
                rec.exception('dH', e, what=f'dH of item {k_} of a {case["comb"]} set raised {type(e).__name__}: {e}'); break
            exp = expected_dH(d, th)
            scale = max(abs(exp), max(abs(ch[i].Hf) for i in d['st']) * 1e-3, 1e-300)
            okshape = np.ndim(got) == 0
            rec.hit('dH:set-item')
            rec.check(okshape and abs(got - exp) <= 1e-11 * scale + 1e-12 * abs(exp), 'dH', 'set-item/' + tag, f'item {k_} of a {case["comb"]} set reports dH={got!r} but X*sum(nu*(Hf+latent)) = {exp!r}',
                      residual=(abs(got - exp) / scale) if okshape else None)
    if case['comb'] == 'system':
        # the heat reported by the members of the parts of a system (the references of the isothermal clause below take these values from the library)
        for a_, m in enumerate(case['members']):
            stop = False
            for b_, d in enumerate(m['rx']):
                try: got = (rx[a_] if m['k'] == 'single' else rx[a_][b_]).dH
                except Exception as e:
                    rec.exception('dH', e, what=f'dH of member {b_} of part {a_} ({m["k"]}) of a system raised {type(e).__name__}: {e}'); stop = True; break
                exp = expected_dH(d, th)
                scale = max(abs(exp), max(abs(ch[i].Hf) for i in d['st']) * 1e-3, 1e-300)
                okshape = np.ndim(got) == 0
                rec.hit('dH:system-member')
                rec.check(okshape and abs(got - exp) <= 1e-11 * scale + 1e-12 * abs(exp), 'dH', f'system-member/{m["k"]}/{tag}', f'member {b_} of part {a_} ({m["k"]}) of a system reports dH={got!r} but X*sum(nu*(Hf+latent)) = {exp!r}',
                          residual=(abs(got - exp) / scale) if okshape else None)
            if stop: break
    if kind == 'dH':
        d = case['members'][0]
        try: got = rx.dH
        except Exception as e:
            rec.exception('dH', e, what=f'dH raised {type(e).__name__}: {e}'); return
        exp = expected_dH(d, th)
        scale = max(abs(exp), max(abs(ch[i].Hf) for i in d['st']) * 1e-3, 1e-300)
        rec.check(abs(got - exp) <= 1e-11 * scale + 1e-12 * abs(exp), 'dH', tag, f'dH={got!r} but X*sum(nu*(Hf+latent)){"/MW" if d["basis"] == "wt" else ""} = {exp!r}', residual=abs(got - exp) / scale)
        if case['tagged']: rec.hit('dH:tagged')
        if d['basis'] == 'wt': rec.hit('dH:wt')
        if d['X'] == 0: rec.hit('dH:X=0')
        if d.get('ph') and 's' in d['ph'].values(): rec.hit('dH:solid-phase')
        if d.get('ph') and any(ch[i].phase_ref == 's' and d['ph'][i] != 's' for i in d['st']): rec.hit('dH:solid-reference')
        if case.get('rebase'):
            # the heat of reaction reported by a re-based reaction: same formula, per unit of the other basis
            other = 'wt' if d['basis'] == 'mol' else 'mol'
            try:
                if case['rebase'] == 'copy': r2 = rx.copy(basis=other)
                else: r2 = rx.copy(); r2.basis = other
                got2 = r2.dH
            except Exception as e:
                rec.exception('dH', e, what=f'dH of a reaction re-based to {other} ({case["rebase"]}) raised {type(e).__name__}: {e}'); return
            exp2 = expected_dH(dict(d, basis=other), th)
            scale2 = max(abs(exp2), max(abs(ch[i].Hf) for i in d['st']) * 1e-3 / (ch[d['reactant']].MW if other == 'wt' else 1.0), 1e-300)
            rec.hit('dH:rebased')
            rec.check(abs(got2 - exp2) <= 1e-10 * scale2, 'dH', f'rebased-{case["rebase"]}/{tag}', f'after re-basing to {other}: dH={got2!r} but X*sum(nu*(Hf+latent)){"/MW" if other == "wt" else ""} = {exp2!r}', residual=abs(got2 - exp2) / scale2)
            rec.check(abs(rx.dH - got) <= 1e-15 * abs(got), 'dH', f'rebased-{case["rebase"]}/original-changed/{tag}', f're-basing a copy changed the dH of the original: {got!r} -> {rx.dH!r}')
        if d['X'] > 0 and len(d['st']) >= 3: rec.mark_nontrivial(case_hash(case))
        return
    s = build_stream(case, th)
    n0 = mol_by_id(s)
    try:
        H0, Hf0, Hnet0 = s.H, s.Hf, s.Hnet
    except Exception as e:
        rec.exception('stream-H', e, what=f'reading H/Hf/Hnet raised {type(e).__name__}: {e}'); return
    if kind in ('iso', 'literal'):
        expm, neg = predict(case, feed_keyed(case), ch)
        try:
            rx(s)
        except InfeasibleRegion:
            judge_infeasible(rec, 'isothermal', tag, neg); return
        except Exception as e:
            rec.exception('isothermal', e, what=f'reaction call raised {type(e).__name__}: {e}'); return
        if neg < -1e-13:
            rec.refuse('the call returned although the dense model finds a negative flow (round-off boundary or infeasible: judged by C05, not here)'); return
        n1 = mol_by_id(s)
        H1, Hf1, Hnet1 = s.H, s.Hf, s.Hnet
        dHf_model = sum((n1.get(i, 0.0) - n0.get(i, 0.0)) * ch[i].Hf for i in set(n0) | set(n1))
        # S = sum |n_i Hf_i|: the size of the terms whose round-off the formation-enthalpy change carries (relative 1e-13 of it is far above that round-off)
        S = sum(max(abs(n0.get(i, 0.0)), abs(n1.get(i, 0.0))) * abs(ch[i].Hf) for i in set(n0) | set(n1))
        scale = max(abs(Hnet0), abs(Hnet1), abs(dHf_model), 1e-300)
        # Hnet = H + Hf on both sides, and the change of Hf is the stoichiometry-weighted formation enthalpy
        rec.check(abs((Hnet1 - Hnet0) - (H1 - H0) - dHf_model) <= HNET_TOL * scale, 'isothermal', f'Hnet-H-Hf/{tag}',
                  f'change of (Hnet - H) = {(Hnet1 - Hnet0) - (H1 - H0)!r} but sum(dn_i*Hf_i) = {dHf_model!r}', residual=abs((Hnet1 - Hnet0) - (H1 - H0) - dHf_model) / scale)
        rec.check(abs(s.T - case['T']) == 0, 'isothermal', f'T-changed/{tag}', f'isothermal reaction changed T {case["T"]} -> {s.T}')
        if case['comb'] == 'single':
            d = case['members'][0]; r = d['reactant']
            fed = n0.get(r, 0.0) if not d.get('ph') else None
            if d.get('ph'):
                # reactant fed = amount in the tagged phase
                fed = case['flows'][r] if case['phmap'][r] == d['ph'][r] else 0.0
            fed_units = fed * (ch[r].MW if d['basis'] == 'wt' else 1.0)
            lat = 0.0
            if d.get('ph'):
                lat = d['X'] * sum((v / -d['st'][r]) * latent(ch[i], d['ph'][i]) for i, v in d['st'].items())
                if d['basis'] == 'wt': lat /= ch[r].MW
            exp = (rx.dH - lat) * fed_units
            den = abs(exp) + 1e-3 * S + 1e-300
            rec.check(abs(dHf_model - exp) <= 1e-10 * den, 'isothermal', f'dH-times-fed/{tag}',
                      f'formation-enthalpy change {dHf_model!r} != (dH - latent)*fed = {exp!r}', residual=abs(dHf_model - exp) / den)
            # the same with the heat of reaction written by the harness (heats of formation and latent heats of the chemicals, stoichiometry and conversion of the description)
            expi = (expected_dH(d, th) - lat) * fed_units
            deni = abs(expi) + 1e-3 * S + 1e-300
            rec.hit('isothermal:model-dH-times-fed')
            rec.check(abs(dHf_model - expi) <= 1e-10 * deni, 'isothermal', f'model-dH-times-fed/{tag}',
                      f'formation-enthalpy change {dHf_model!r} != (X*sum(nu*(Hf+latent)) - latent)*fed = {expi!r}', residual=abs(dHf_model - expi) / deni)
            if kind == 'literal':
                lit = rx.dH * fed_units
                denl = abs(lit) + 1e-2 * max(abs(Hnet0), abs(Hnet1)) + 1e-300
                rec.check(abs((Hnet1 - Hnet0) - lit) <= 1e-10 * denl, 'isothermal-literal', tag,
                          f'at 298.15 K in reference phases: Hnet changed by {Hnet1 - Hnet0!r} but dH*fed = {lit!r}', residual=abs((Hnet1 - Hnet0) - lit) / denl)
                liti = expected_dH(d, th) * fed_units
                denli = abs(liti) + 1e-2 * max(abs(Hnet0), abs(Hnet1)) + 1e-300
                rec.check(abs((Hnet1 - Hnet0) - liti) <= 1e-10 * denli, 'isothermal-literal', 'model-dH/' + tag,
                          f'at 298.15 K in reference phases: Hnet changed by {Hnet1 - Hnet0!r} but X*sum(nu*Hf)*fed = {liti!r}', residual=abs((Hnet1 - Hnet0) - liti) / denli)
        if case['comb'] != 'single':
            # the formation-enthalpy change of a set / system is the sum over its members of (reported heat of the member) x (reactant amount the member sees):
            # the feed for parallel members, the running composition for series members and from one part of a system to the next
            from vt.workloads.c05 import model as dense
            key = (lambda i: (case['phmap'][i], i)) if case['tagged'] else (lambda i: i)
            fl = {key(i): v for i, v in case['flows'].items() if v}
            if case['comb'] == 'system': groups = [(m['k'], m['rx'], [rx[a]] if m['k'] == 'single' else [rx[a][b] for b in range(len(m['rx']))]) for a, m in enumerate(case['members'])]
            else: groups = [(case['comb'], case['members'], [rx[b] for b in range(len(case['members']))])]
            exp = 0.0; expi = 0.0; okdH = True
            for k_, ds, objs in groups:
                for d, o in zip(ds, objs):
                    r = d['reactant']
                    fed = fl.get(key(r), 0.0) * (ch[r].MW if d['basis'] == 'wt' else 1.0)
                    lat = 0.0
                    if d.get('ph'):
                        lat = d['X'] * sum((v / -d['st'][r]) * latent(ch[i], d['ph'][i]) for i, v in d['st'].items())
                        if d['basis'] == 'wt': lat /= ch[r].MW
                    expi += (expected_dH(d, th) - lat) * fed
                    try: dh = o.dH
                    except Exception as e:
                        rec.exception('dH', e, what=f'dH of a member raised {type(e).__name__}: {e}'); okdH = False; break
                    if np.ndim(dh) != 0: okdH = False; break          # judged by the set-item clause
                    exp += (dh - lat) * fed
                    if k_ == 'series' or k_ == 'single': fl = R.model_apply(fl, d)
                if not okdH: break
                if k_ == 'parallel': fl = dense({'comb': 'parallel', 'members': ds}, fl)
            if okdH:
                rec.hit('isothermal:set-dH-times-fed')
                den = abs(exp) + 1e-3 * S + 1e-300
                rec.check(abs(dHf_model - exp) <= 1e-10 * den, 'isothermal', f'set-dH-times-fed/{tag}',
                          f'formation-enthalpy change {dHf_model!r} != sum over members of (dH - latent)*fed = {exp!r}', residual=abs(dHf_model - exp) / den)
                # the same with every member's heat written by the harness (no value of the sum comes from the library)
                deni = abs(expi) + 1e-3 * S + 1e-300
                rec.hit('isothermal:model-dH-times-fed')
                rec.check(abs(dHf_model - expi) <= 1e-10 * deni, 'isothermal', f'set-model-dH-times-fed/{tag}',
                          f'formation-enthalpy change {dHf_model!r} != sum over members of (X*sum(nu*(Hf+latent)) - latent)*fed = {expi!r}', residual=abs(dHf_model - expi) / deni)
        if case.get('sparse'): rec.hit('feed:sparse')
        if case.get('foreign'): rec.hit('stream:other-package')
        rec.mark_nontrivial(case_hash(case))
        return
    # adiabatic
    Q = case['Q']
    def call():
        qf = case.get('Qform', 'positional')
        if qf == 'keyword' and Q: rx.adiabatic_reaction(s, Q=Q); rec.hit('adiabatic:Q-keyword')
        elif qf == 'explicit' and not Q: rx.adiabatic_reaction(s, 0.0); rec.hit('adiabatic:Q=0-explicit')
        else: rx.adiabatic_reaction(s, Q) if Q else rx.adiabatic_reaction(s)
    if not judge_adiabatic(rec, case, th, ch, s, call, case, Q, tag, 'adiabatic_reaction', H0, Hnet0, n0): return
    if case.get('lean'): rec.hit('adiabatic:lean-inerts')
    if Q: rec.hit('adiabatic:Q')
    if Q and case.get('Qlarge'): rec.hit('adiabatic:Q-large')
    if case.get('sparse'): rec.hit('feed:sparse')
    if case.get('foreign'): rec.hit('stream:other-package')
    if case.get('noconv'): rec.hit('adiabatic:no-conversion' + ('+Q' if Q else ''))
    rec.mark_nontrivial(case_hash(case))


# ---------------------------------------------------------------------------------------------------------------
# conversion-update histories: the heat a reaction object reports, and the enthalpy it moves, must follow the conversions in force
# whatever the order in which handles (items, iteration items, slices, items of slices, parts of a system) were taken and the conversions
# were re-assigned (whole-array / scalar / element / in-place scaling on the set, through an item, through a slice, through the system),
# and snapshots (copy, re-based copy, item copy, k*item, item/k) must keep the conversions they were made with.

SET_ROUTES = ('assign-list', 'assign-list', 'assign-list', 'assign-array', 'assign-array', 'assign-array', 'assign-scalar', 'assign-scalar', 'elem', 'slice-write', 'imul', 'self-assign',
              'item-assign', 'item-assign', 'item-imul', 'item-itruediv', 'subset-assign', 'subset-assign', 'subset-assign', 'subset-elem', 'subset-item-assign', 'subset-imul')
HIST_CAP = 0.3333


def _gen_slice(rng, n):
    a = rng.randrange(0, n); b = rng.randrange(a + 1, n + 1)
    sl = [a, b]
    if b == n and rng.random() < 0.4: sl[1] = None
    if a == 0 and rng.random() < 0.4: sl[0] = None
    return sl


def _slice_bounds(sl, n):
    return (sl[0] or 0), (n if sl[1] is None else sl[1])


def gen_hist_case(rng):
    basis = rng.choice(['mol', 'mol', 'wt'])
    tagged = rng.random() < 0.25
    phase = rng.choice('lg'); allowed = NOGLU
    phmap = {i: rng.choice('lg') for i in R.IDS} if tagged else None
    comb = rng.choice(['parallel', 'parallel', 'series', 'series', 'system', 'system', 'single'])
    cap = 1.0 if comb == 'single' else HIST_CAP
    def newx(): return rng.choice([0.0, cap, round(rng.uniform(0.01, cap), 4), round(rng.uniform(0.01, cap), 4), round(rng.uniform(0.01, cap), 4)])
    def one():
        for _ in range(30):
            d = R.gen_reaction(rng, allowed=allowed, phases_p=0)
            if set(d['st']) <= set(allowed): break
        d['basis'] = basis
        d['X'] = round(rng.choice([1.0, 0.5, rng.uniform(0.01, 1), rng.uniform(0.01, 0.3)]) * cap, 5)
        if tagged: d['ph'] = {i: phmap[i] for i in d['st']}
        return d
    if comb == 'single':
        members = [one()]; sizes = [1]; kinds = ['single']; flat = members
    elif comb in ('parallel', 'series'):
        members = [one() for _ in range(rng.randrange(2, 4))]; sizes = [len(members)]; kinds = [comb]; flat = members
    else:
        members = []
        for _ in range(rng.randrange(2, 4)):
            k = rng.choice(['single', 'parallel', 'series'])
            members.append({'k': k, 'rx': [one() for _ in range(1 if k == 'single' else rng.randrange(2, 4))]})
        sizes = [len(m['rx']) for m in members]; kinds = [m['k'] for m in members]; flat = [r for m in members for r in m['rx']]
    flows = {i: round(10 ** rng.uniform(2.5, 3.5), 3) for i in allowed}
    for m in flat: flows[m['reactant']] = round(10 ** rng.uniform(0, 1.3), 4)
    if rng.random() < 0.3:
        consumed = {i for m in flat for i, v in m['st'].items() if v < 0}
        for i in list(flows):
            if i not in consumed and rng.random() < 0.5: flows[i] = 0.0
    nparts = len(sizes)
    sysvia = lambda: rng.choice(['getitem', 'iter', 'reactions'])
    def gen_handles():
        p = rng.randrange(nparts)
        st = {'op': 'handles', 'p': p, 'sysvia': sysvia()}
        if kinds[p] == 'single': st['how'] = 'self'
        else:
            st['how'] = rng.choice(['getitem', 'getitem', 'iter', 'neg-index', 'subset-item'])
            if st['how'] == 'subset-item': st['sl'] = _gen_slice(rng, sizes[p])
        return st
    def gen_snap():
        p = rng.randrange(nparts)
        st = {'op': 'snap', 'p': p, 'sysvia': sysvia()}
        if kinds[p] == 'single': st['form'] = rng.choice(['copy', 'copy-rebased', 'setter-rebased', 'mul', 'rmul', 'div'])
        else:
            st['form'] = rng.choice(['set-copy', 'set-copy', 'set-copy-rebased', 'subset-copy', 'item-copy', 'item-copy-rebased', 'item-mul', 'item-rmul', 'item-div'])
            st['i'] = rng.randrange(sizes[p])
            if st['form'] == 'subset-copy': st['sl'] = _gen_slice(rng, sizes[p])
        if st['form'].endswith(('mul', 'div')): st['k'] = rng.choice([2.0, 4.0, round(rng.uniform(1, 5), 3)]) if st['form'].endswith('div') else rng.choice([0.5, 0.25, round(rng.uniform(0.05, 1), 3)])
        return st
    def gen_update():
        if comb == 'system' and rng.random() < 0.35:
            xs = [newx() if kinds[p] == 'single' else [newx() for _ in range(sizes[p])] for p in range(nparts)]
            return {'op': 'update', 'route': 'system-assign', 'x': xs, 'as': rng.choice(['list', 'array', 'tuple'])}
        p = rng.randrange(nparts); n = sizes[p]
        st = {'op': 'update', 'p': p, 'sysvia': sysvia()}
        if kinds[p] == 'single':
            st['route'] = rng.choice(['assign', 'assign', 'imul', 'itruediv'])
            if st['route'] == 'assign': st['v'] = newx()
            else: st['k'] = rng.choice([0.5, 0.25, round(rng.uniform(0.05, 1), 3)]) if st['route'] == 'imul' else rng.choice([2.0, 4.0, round(rng.uniform(1, 5), 3)])
            return st
        route = st['route'] = rng.choice(SET_ROUTES)
        if route in ('assign-list', 'assign-array'): st['x'] = [newx() for _ in range(n)]
        elif route == 'assign-scalar': st['v'] = rng.choice([newx(), 0, newx()])
        elif route == 'elem': st['i'] = rng.randrange(n); st['v'] = newx()
        elif route == 'slice-write': st['sl'] = _gen_slice(rng, n); a, b = _slice_bounds(st['sl'], n); st['x'] = [newx() for _ in range(b - a)]
        elif route in ('imul', 'subset-imul'): st['k'] = rng.choice([0.5, 0.25, 0.0, round(rng.uniform(0.05, 1), 3)])
        elif route == 'item-assign': st['i'] = rng.randrange(n); st['v'] = newx(); st['via'] = rng.choice(['fresh', 'held', 'held'])
        elif route == 'item-imul': st['i'] = rng.randrange(n); st['k'] = rng.choice([0.5, 0.25, round(rng.uniform(0.05, 1), 3)]); st['via'] = rng.choice(['fresh', 'held'])
        elif route == 'item-itruediv': st['i'] = rng.randrange(n); st['k'] = rng.choice([2.0, 4.0, round(rng.uniform(1, 5), 3)]); st['via'] = rng.choice(['fresh', 'held'])
        if route.startswith('subset'):
            st['sl'] = _gen_slice(rng, n); a, b = _slice_bounds(st['sl'], n); st['via'] = rng.choice(['fresh', 'held'])
            if route == 'subset-assign':
                st['as'] = rng.choice(['list', 'array', 'scalar'])
                st['x'] = newx() if st['as'] == 'scalar' else [newx() for _ in range(b - a)]
            elif route in ('subset-elem', 'subset-item-assign'): st['j'] = rng.randrange(b - a); st['v'] = newx()
        return st
    steps = []
    for u in range(rng.choice([1, 1, 2, 3])):
        if rng.random() < 0.85: steps.append(gen_handles())
        if rng.random() < 0.3: steps.append(gen_handles())
        if rng.random() < 0.35: steps.append(gen_snap())
        steps.append(gen_update())
    if rng.random() < 0.5: steps.append(gen_handles())
    mode = rng.choice(['dH', 'dH', 'iso', 'iso', 'iso', 'adiabatic'])
    final = {'mode': mode}
    if mode != 'dH':
        via = 'top' if comb == 'single' else rng.choice(['top', 'top', 'item', 'subset'] + (['part', 'part'] if comb == 'system' else []))
        p = rng.randrange(nparts)
        if kinds[p] == 'single' and via in ('item', 'subset'): via = 'part' if comb == 'system' else 'top'
        final.update(via=via, p=p, sysvia=sysvia())
        if via == 'item': final['i'] = rng.randrange(sizes[p])
        if via == 'subset': final['sl'] = _gen_slice(rng, sizes[p]); final['held'] = rng.random() < 0.6
        if mode == 'adiabatic':
            final['Q'] = rng.choice([-1, 1]) * 10 ** rng.uniform(3, 6) if rng.random() < 0.6 else 0.0
            final['Qform'] = rng.choice(['positional', 'keyword'])
    case = {'kind': 'hist', 'comb': comb, 'members': members, 'tagged': tagged, 'phmap': phmap, 'basis': basis, 'flows': flows, 'phase': phase,
            'T': round(rng.uniform(280, 450), 2), 'P': rng.choice([101325., 5e4, 5e5]), 'steps': steps, 'final': final}
    if mode != 'dH' and rng.random() < 0.2: case['foreign'] = True
    return case


class _Part:
    """one reaction or reaction set under test with the conversions the history has put in force (the model)."""
    __slots__ = ('obj', 'kind', 'descs', 'X', 'route', 'nupd')
    def __init__(self, obj, kind, descs):
        self.obj = obj; self.kind = kind; self.descs = descs; self.X = [float(d['X']) for d in descs]; self.route = None; self.nupd = 0
    def desc(self, i, **kw): return dict(self.descs[i], X=self.X[i], **kw)


def run_hist(case, rec):
    from vt.workloads.c05 import build, model as dense
    rec.begin_case(case)
    th = R.thermo()
    ch = {c.ID: c for c in th.chemicals}
    comb = case['comb']; basis = case['basis']
    tag = f'{comb}/{basis}/{"tagged" if case["tagged"] else "phase-less"}'
    try:
        rx = build(case, th)
    except Exception as e:
        rec.exception('construct', e, what=f'constructing reaction raised {type(e).__name__}: {e}'); return
    rec.hit('hist'); rec.hit('hist:comb:' + comb)
    if comb == 'system':
        parts = [_Part(None, m['k'], [dict(d) for d in m['rx']]) for m in case['members']]
    else:
        parts = [_Part(rx, comb, [dict(d) for d in case['members']])]
    def pobj(p, via='getitem'):
        if comb != 'system': return rx
        o = rx[p] if via == 'getitem' else (list(rx)[p] if via == 'iter' else rx.reactions[p])
        parts[p].obj = o
        return o
    handles = []     # {'h', 'p', 'i', 'how', 'epoch'}
    subsets = []     # {'h', 'p', 'a', 'b', 'epoch'}
    snaps = []       # {'objs': [(object, frozen description)], 'form', 'p', 'epoch'}
    def held(p, i, sound=False):
        for h in handles:
            if h['p'] == p and h['i'] == i and not (sound and h.get('failed')): return h['h']
        return None
    def reporter(p, i):
        """the object asked for the heat of member i of part p: the earliest handle held, else a fresh one."""
        h = held(p, i)
        if h is not None: return h
        o = pobj(p)
        return o if parts[p].kind == 'single' else o[i]
    def dH_check(o, d, key, what, rebased=False):
        try: got = o.dH
        except Exception as e:
            rec.exception('dH', e, what=f'{what}: dH raised {type(e).__name__}: {e}'); return False
        exp = expected_dH(d, th)
        scale = max(abs(exp), max(abs(ch[i].Hf) for i in d['st']) * 1e-3 / (ch[d['reactant']].MW if (rebased and d['basis'] == 'wt') else 1.0), 1e-300)
        okshape = np.ndim(got) == 0
        tol = 1e-10 * scale if rebased else 1e-11 * scale + 1e-12 * abs(exp)
        return rec.check(okshape and abs(got - exp) <= tol, 'dH', key, f'{what}: reports dH={got!r} but (conversion in force = {d["X"]!r}) * sum(nu*(Hf+latent)){"/MW" if d["basis"] == "wt" else ""} = {exp!r}',
                  residual=(abs(got - exp) / scale) if okshape else None)
    def check_all(last):
        """True when every handle and snapshot reports the heat the model expects; after a failure the object and the model have parted: the rest of the history is not judged
        (everything later would fail for the same reason under the name of a later update)."""
        good = True
        for h in handles:
            pt = parts[h['p']]
            if not pt.nupd or h.get('failed'): continue       # a handle that already failed is not judged again: the key names the update that broke it
            before = h['epoch'] < pt.nupd
            rec.hit('hist:handle-before-update' if before else 'hist:handle-after-update'); rec.hit('hist:dH')
            if not dH_check(h['h'], pt.desc(h['i']), f'history/{pt.route}/{h["how"]}-taken-{"before" if before else "after"}/{tag}',
                            f'{h["how"]} handle of member {h["i"]} taken {"before" if before else "after"} the conversions were last changed ({pt.route})'): h['failed'] = True; good = False
        for p_, pt in enumerate(parts):
            # the object itself, asked afresh, right after the update (a history whose update did not reach the object is named by that update, not by a later one)
            if pt.nupd and last != 'end' and (last == 'system-assign' or p_ == upd_part[0]):
                o = pobj(p_)
                for i in range(len(pt.X)):
                    rec.hit('hist:fresh-after-update')
                    if not dH_check(o if pt.kind == 'single' else o[i], pt.desc(i), f'history/{pt.route}/fresh-item-after/{tag}', f'member {i} fetched right after the update ({pt.route})'): good = False
        for sn in snaps:
            if sn.get('failed'): continue
            pt = parts[sn['p']]
            touched = pt.nupd > sn['epoch']
            if touched: rec.hit('hist:snapshot-source-updated')
            rec.hit('hist:snapshot')
            for o, d in sn['objs']:
                if not dH_check(o, d, f'history/snapshot-{sn["form"]}/{("source-updated-" + str(pt.route)) if touched else "fresh"}/{tag}',
                                f'{sn["form"]} snapshot' + (f' after its source was updated ({pt.route})' if touched else ''), rebased='rebased' in sn['form']): sn['failed'] = True; good = False
        return good
    step = None; upd_part = [None]
    try:
        for step in case['steps']:
            op = step['op']
            if op == 'update' and step['route'] == 'system-assign':
                xs = step['x']
                val = [(x if parts[p].kind == 'single' else (np.array(x, float) if step['as'] == 'array' else list(x))) for p, x in enumerate(xs)]
                rx.X = tuple(val) if step['as'] == 'tuple' else val
                for p, x in enumerate(xs):
                    pobj(p)
                    parts[p].X = [float(x)] if parts[p].kind == 'single' else [float(v) for v in x]
                    parts[p].route = 'system-assign'; parts[p].nupd += 1
                rec.hit('hist:route:system-assign'); rec.hit('hist:system-assign')
                if not check_all('system-assign'): rec.hit('hist:stopped-after-failure'); return
                continue
            p = step['p']; pt = parts[p]; S = pobj(p, step.get('sysvia', 'getitem')); n = len(pt.X)
            if op == 'handles':
                how = step['how']; ep = pt.nupd
                if how == 'self': handles.append({'h': S, 'p': p, 'i': 0, 'how': 'self', 'epoch': ep})
                elif how == 'subset-item':
                    a, b = _slice_bounds(step['sl'], n)
                    sub = S[slice(*step['sl'])]
                    subsets.append({'h': sub, 'p': p, 'a': a, 'b': b, 'epoch': ep})
                    for j in range(b - a): handles.append({'h': sub[j], 'p': p, 'i': a + j, 'how': how, 'epoch': ep})
                else:
                    its = list(S) if how == 'iter' else None
                    for i in range(n):
                        h = S[i] if how == 'getitem' else (its[i] if how == 'iter' else S[i - n])
                        handles.append({'h': h, 'p': p, 'i': i, 'how': how, 'epoch': ep})
                rec.hit('hist:handles:' + how)
            elif op == 'snap':
                form = step['form']; ep = pt.nupd; other = 'wt' if basis == 'mol' else 'mol'
                if form in ('set-copy', 'set-copy-rebased'):
                    c = S.copy(basis=other) if form == 'set-copy-rebased' else S.copy()
                    objs = [(c[i], pt.desc(i, **({'basis': other} if form == 'set-copy-rebased' else {}))) for i in range(n)]
                elif form == 'subset-copy':
                    a, b = _slice_bounds(step['sl'], n)
                    c = S[slice(*step['sl'])].copy()
                    objs = [(c[j], pt.desc(a + j)) for j in range(b - a)]
                else:
                    i = step.get('i', 0)
                    src = S if pt.kind == 'single' else (held(p, i, sound=True) or S[i])
                    if form in ('copy', 'item-copy'): objs = [(src.copy(), pt.desc(i))]
                    elif form in ('copy-rebased', 'item-copy-rebased'): objs = [(src.copy(basis=other), pt.desc(i, basis=other))]
                    elif form == 'setter-rebased':
                        c = src.copy(); c.basis = other; objs = [(c, pt.desc(i, basis=other))]
                    else:
                        k = step['k']
                        if form.endswith('rmul'): c = k * src; x = pt.X[i] * k
                        elif form.endswith('mul'): c = src * k; x = pt.X[i] * k
                        else: c = src / k; x = pt.X[i] * (1. / k)
                        d = pt.desc(i); d['X'] = x
                        objs = [(c, d)]
                snaps.append({'objs': objs, 'form': form, 'p': p, 'epoch': ep})
                rec.hit('hist:snap:' + form)
            else:
                route = step['route']
                if route == 'assign': S.X = step['v']; pt.X = [float(step['v'])]
                elif route == 'imul' and pt.kind == 'single': S *= step['k']; pt.X = [pt.X[0] * step['k']]
                elif route == 'itruediv': S /= step['k']; pt.X = [pt.X[0] * (1. / step['k'])]
                elif route == 'assign-list': S.X = list(step['x']); pt.X = [float(v) for v in step['x']]
                elif route == 'assign-array': S.X = np.array(step['x'], float); pt.X = [float(v) for v in step['x']]
                elif route == 'assign-scalar': S.X = step['v']; pt.X = [float(step['v'])] * n
                elif route == 'elem': S.X[step['i']] = step['v']; pt.X[step['i']] = float(step['v'])
                elif route == 'slice-write':
                    a, b = _slice_bounds(step['sl'], n)
                    S.X[slice(*step['sl'])] = step['x']; pt.X[a:b] = [float(v) for v in step['x']]
                elif route == 'imul': S.X *= step['k']; pt.X = [v * step['k'] for v in pt.X]
                elif route == 'self-assign': S.X = S.X
                elif route in ('item-assign', 'item-imul', 'item-itruediv'):
                    i = step['i']
                    it = (held(p, i, sound=True) if step['via'] == 'held' else None)
                    if it is None: it = S[i]
                    if route == 'item-assign': it.X = step['v']; pt.X[i] = float(step['v'])
                    elif route == 'item-imul': it *= step['k']; pt.X[i] = pt.X[i] * step['k']
                    else: it /= step['k']; pt.X[i] = pt.X[i] * (1. / step['k'])
                else:
                    a, b = _slice_bounds(step['sl'], n)
                    sub = None
                    if step['via'] == 'held':
                        for sb in subsets:
                            if sb['p'] == p and (sb['a'], sb['b']) == (a, b): sub = sb['h']; break
                    if sub is None: sub = S[slice(*step['sl'])]
                    if route == 'subset-assign':
                        if step['as'] == 'scalar': sub.X = step['x']; pt.X[a:b] = [float(step['x'])] * (b - a)
                        else: sub.X = np.array(step['x'], float) if step['as'] == 'array' else list(step['x']); pt.X[a:b] = [float(v) for v in step['x']]
                    elif route == 'subset-elem': sub.X[step['j']] = step['v']; pt.X[a + step['j']] = float(step['v'])
                    elif route == 'subset-item-assign': sub[step['j']].X = step['v']; pt.X[a + step['j']] = float(step['v'])
                    else: sub.X *= step['k']; pt.X[a:b] = [v * step['k'] for v in pt.X[a:b]]
                    rec.hit('hist:subset-route')
                if route in ('assign-list', 'assign-array', 'assign-scalar'): rec.hit('hist:set-assign')
                if route == 'subset-assign': rec.hit('hist:subset-assign')
                if route.startswith('item-'): rec.hit('hist:item-route')
                pt.route = route if pt.kind != 'single' else 'single-' + route
                pt.nupd += 1; upd_part[0] = p
                rec.hit('hist:route:' + pt.route)
                if not check_all(route): rec.hit('hist:stopped-after-failure'); return
        if case['steps'] and case['steps'][-1]['op'] == 'handles' and not check_all('end'): return     # the handles taken after the last update
    except Exception as e:
        rec.exception('history', e, what=f'history step {step!r} raised {type(e).__name__}: {str(e)[:200]}'); return
    final = case['final']; mode = final['mode']
    rec.mark_nontrivial(case_hash(case))
    if mode == 'dH': return
    # the object applied to the stream and the members it stands for: [(kind, [(description with the conversion in force, object reporting the heat)])]
    via = final['via']
    def grp(p, a=None, b=None):
        pt = parts[p]
        rng_ = range(len(pt.X)) if a is None else range(a, b)
        return (pt.kind, [(pt.desc(i), reporter(p, i)) for i in rng_])
    try:
        if via == 'top': A = rx; groups = [grp(p) for p in range(len(parts))]
        elif via == 'part': A = pobj(final['p'], final.get('sysvia', 'getitem')); groups = [grp(final['p'])]
        elif via == 'item':
            A = reporter(final['p'], final['i']); groups = [('single', [(parts[final['p']].desc(final['i']), A)])]
        else:
            p = final['p']; a, b = _slice_bounds(final['sl'], len(parts[p].X)); A = None
            if final.get('held'):
                for sb in subsets:
                    if sb['p'] == p and (sb['a'], sb['b']) == (a, b): A = sb['h']; rec.hit('hist:apply-held-subset'); break
            if A is None: A = pobj(p)[slice(*final['sl'])]
            groups = [grp(p, a, b)]
    except Exception as e:
        rec.exception('history', e, what=f'taking the object to apply ({via}) raised {type(e).__name__}: {str(e)[:200]}'); return
    s = build_stream(case, th)
    n0 = mol_by_id(s)
    try:
        H0, Hf0, Hnet0 = s.H, s.Hf, s.Hnet
    except Exception as e:
        rec.exception('stream-H', e, what=f'reading H/Hf/Hnet raised {type(e).__name__}: {e}'); return
    lastroute = next((pt.route for pt in parts if pt.route), 'none') if comb != 'system' else 'system'
    # the applied object as the dense model sees it (members with the conversions in force)
    if len(groups) == 1 and not (via == 'top' and comb == 'system'):
        mcase = {'comb': groups[0][0], 'members': [d for d, _ in groups[0][1]]}
    else:
        mcase = {'comb': 'system', 'members': [{'k': k_, 'rx': [d for d, _ in pairs]} for k_, pairs in groups]}
    if mode == 'iso':
        expm, neg = predict(mcase, feed_keyed(case), ch)
        try:
            A(s)
        except InfeasibleRegion:
            judge_infeasible(rec, 'isothermal', f'history/{via}/{tag}', neg); return
        except Exception as e:
            rec.exception('isothermal', e, what=f'reaction call ({via}) after a conversion history raised {type(e).__name__}: {e}'); return
        if neg < -1e-13:
            rec.refuse('the call returned although the dense model finds a negative flow (round-off boundary or infeasible: judged by C05, not here)'); return
        n1 = mol_by_id(s)
        H1, Hf1, Hnet1 = s.H, s.Hf, s.Hnet
        dHf_model = sum((n1.get(i, 0.0) - n0.get(i, 0.0)) * ch[i].Hf for i in set(n0) | set(n1))
        S = sum(max(abs(n0.get(i, 0.0)), abs(n1.get(i, 0.0))) * abs(ch[i].Hf) for i in set(n0) | set(n1))
        scale = max(abs(Hnet0), abs(Hnet1), abs(dHf_model), 1e-300)
        rec.check(abs((Hnet1 - Hnet0) - (H1 - H0) - dHf_model) <= HNET_TOL * scale, 'isothermal', f'history/Hnet-H-Hf/{via}/{tag}',
                  f'change of (Hnet - H) = {(Hnet1 - Hnet0) - (H1 - H0)!r} but sum(dn_i*Hf_i) = {dHf_model!r}', residual=abs((Hnet1 - Hnet0) - (H1 - H0) - dHf_model) / scale)
        rec.check(abs(s.T - case['T']) == 0, 'isothermal', f'history/T-changed/{via}/{tag}', f'isothermal reaction changed T {case["T"]} -> {s.T}')
        key = (lambda i: (case['phmap'][i], i)) if case['tagged'] else (lambda i: i)
        fl = {key(i): v for i, v in case['flows'].items() if v}
        exp = 0.0; expi = 0.0
        for k_, pairs in groups:
            for d, o in pairs:
                r = d['reactant']
                fed = fl.get(key(r), 0.0) * (ch[r].MW if d['basis'] == 'wt' else 1.0)
                lat = 0.0
                if d.get('ph'):
                    lat = d['X'] * sum((v / -d['st'][r]) * latent(ch[i], d['ph'][i]) for i, v in d['st'].items())
                    if d['basis'] == 'wt': lat /= ch[r].MW
                expi += (expected_dH(d, th) - lat) * fed
                try: dh = o.dH
                except Exception as e:
                    rec.exception('dH', e, what=f'dH of a member raised {type(e).__name__}: {e}'); return
                if np.ndim(dh) != 0: return            # judged by the dH clause
                exp += (dh - lat) * fed
                if k_ != 'parallel': fl = R.model_apply(fl, d)
            if k_ == 'parallel': fl = dense({'comb': 'parallel', 'members': [d for d, _ in pairs]}, fl)
        den = abs(exp) + 1e-3 * S + 1e-300
        rec.hit('hist:iso'); rec.hit('hist:iso:' + via)
        rec.check(abs(dHf_model - exp) <= 1e-10 * den, 'isothermal', f'history/dH-times-fed/{via}/after-{lastroute}/{tag}',
                  f'after the conversion history, reacting with the {via} object: formation-enthalpy change {dHf_model!r} != sum over members of (reported dH - latent)*fed = {exp!r}',
                  residual=abs(dHf_model - exp) / den)
        deni = abs(expi) + 1e-3 * S + 1e-300
        rec.hit('hist:iso:model-dH-times-fed')
        rec.check(abs(dHf_model - expi) <= 1e-10 * deni, 'isothermal', f'history/model-dH-times-fed/{via}/after-{lastroute}/{tag}',
                  f'after the conversion history, reacting with the {via} object: formation-enthalpy change {dHf_model!r} != sum over members of (X in force * sum(nu*(Hf+latent)) - latent)*fed = {expi!r}',
                  residual=abs(dHf_model - expi) / deni)
        if case.get('foreign'): rec.hit('stream:other-package')
        return
    Q = final['Q']
    def call():
        if Q and final.get('Qform') == 'keyword': A.adiabatic_reaction(s, Q=Q)
        elif Q: A.adiabatic_reaction(s, Q)
        else: A.adiabatic_reaction(s)
    if not judge_adiabatic(rec, case, th, ch, s, call, mcase, Q, f'history/{via}/{tag}', f'after the conversion history ({via} object)', H0, Hnet0, n0): return
    rec.hit('hist:adiabatic'); rec.hit('hist:adiabatic:' + via)
    if case.get('foreign'): rec.hit('stream:other-package')


def replay(case, rec):
    run_case(case, rec)


def run(rec, rng, tier, shard, nshards):
    R.check_atoms()
    n = 3000 if tier == 'quick' else 25000
    for i in range(n):
        case = gen_case(rng)
        try:
            run_case(case, rec)
        except Exception as e:
            rec.exception('harness', e, what=f'harness error: {type(e).__name__}: {e}')
        if i % 301 == 0: rec.sample(case)
    # conversion-update histories (added after the original cases: their generator stream is unchanged)
    for i in range(n // 4):
        case = gen_hist_case(rng)
        try:
            run_case(case, rec)
        except Exception as e:
            rec.exception('harness', e, what=f'harness error: {type(e).__name__}: {e}')
        if i % 301 == 0: rec.sample(case)
