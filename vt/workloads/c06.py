"""C06 — heat of reaction and adiabatic reaction close the energy balance.

Monitor: Reaction.dH is recomputed by the harness from heats of formation and latent heats; Hnet/H/Hf of the real stream
are recorded around isothermal and adiabatic reaction calls and the balances are evaluated.
"""
import numpy as np
import thermosteam as tmo
from thermosteam.exceptions import InfeasibleRegion
from vt.core import case_hash
from vt import rxn as R

PID = 'C06'
RULE = ('random balanced reactions (C05 generator) over 15 chemicals with known Hf; clauses: dH formula (mol/wt, phase-less/phase-tagged with latent heats), '
        'isothermal change of Hnet = dH*fed + sensible part (literal form at 298.15 K with every species in its reference phase), adiabatic closure with heat input Q; '
        'gas and liquid feeds 280-450 K; single/parallel/series/system. Coverage additions: dH with X=0, with Glucose (solid reference) and phases g/l/s (all six latent branches), dH of a '
        're-based copy (copy(basis=) and the basis setter) against the formula in the other basis; isothermal formation-enthalpy change of parallel/series/system = sum of member dH x reactant '
        'amount seen by the member (feed for parallel, running for series); sparse feeds (products start from zero); heat inputs worth up to +-100 K, Q by keyword and an explicit Q=0; '
        'streams on another property package. non-trivial = X>0, reactant fed, >=3 species; distinct = hash of the case')
MIN_NONTRIVIAL = {'quick': 300, 'thorough': 10000}
ASSUMPTIONS = ['heats of formation, Hvap(298.15) and Hfus are read from the library chemicals (the check judges the wiring, not the data)',
               'isothermal clause away from the reference state uses the Kirchhoff-corrected identity (DESIGN C06)']
GAS_REF = ('H2', 'O2', 'N2', 'CO', 'CO2', 'CH4', 'Ethylene', 'Propane')
LIQ_REF = ('Water', 'Methanol', 'Ethanol', 'AceticAcid', 'Glycerol', 'Acetone', 'EthylAcetate')
NOGLU = tuple(i for i in R.IDS if i != 'Glucose')


def required(tier):
    return ['dH', 'dH:tagged', 'dH:wt', 'isothermal', 'isothermal-literal', 'adiabatic', 'adiabatic:Q', 'adiabatic:no-conversion+Q', 'dH:set-item', 'comb:parallel', 'comb:series', 'comb:system',
            'dH:X=0', 'dH:solid-phase', 'dH:solid-reference', 'dH:rebased', 'isothermal:set-dH-times-fed', 'feed:sparse', 'adiabatic:Q-large', 'adiabatic:Q-keyword', 'adiabatic:Q=0-explicit',
            'stream:other-package']


def gen_case(rng):
    kind = rng.choice(['dH', 'iso', 'iso', 'literal', 'adiabatic', 'adiabatic'])
    basis = rng.choice(['mol', 'mol', 'wt'])
    tagged = rng.random() < (0.5 if kind == 'dH' else 0.25)
    if kind == 'literal':
        tagged = False
        phase = rng.choice('lg')
        allowed = GAS_REF if phase == 'g' else LIQ_REF
    else:
        phase = rng.choice('lg'); allowed = NOGLU
    phases = None
    if kind == 'dH':
        allowed = R.IDS                                   # no stream is built: Glucose (solid reference, no gas enthalpy model) can take part
        if tagged and rng.random() < 0.5: phases = ['g', 'l', 's']
    phmap = {i: rng.choice(phases or 'lg') for i in R.IDS} if tagged else None
    def one():
        for _ in range(30):
            d = R.gen_reaction(rng, allowed=allowed, phases_p=0)
            if set(d['st']) <= set(allowed): break
        d['basis'] = basis
        d['X'] = rng.choice([1.0, 0.5, round(rng.uniform(0.01, 1), 4), round(rng.uniform(0.01, 0.3), 4)])
        if tagged: d['ph'] = {i: phmap[i] for i in d['st']}
        if kind == 'dH' and rng.random() < 0.1: d['X'] = 0.0
        return d
    comb = 'single' if kind in ('dH', 'literal') else rng.choice(['single', 'single', 'parallel', 'series', 'system'])
    if comb == 'single': members = [one()]
    elif comb in ('parallel', 'series'):
        members = [one() for _ in range(rng.randrange(2, 4))]
        for m in members: m['X'] = round(m['X'] / 3, 5)
    else:
        members = []
        for _ in range(2):
            k = rng.choice(['single', 'parallel', 'series'])
            rs = [one() for _ in range(1 if k == 'single' else 2)]
            for m in rs: m['X'] = round(m['X'] / 4, 5)
            members.append({'k': k, 'rx': rs})
    flows = {i: round(10 ** rng.uniform(2.5, 3.5), 3) for i in allowed}   # plentiful co-reactants: every side stays feasible
    for m in (members if comb != 'system' else [r for mm in members for r in mm['rx']]):
        flows[m['reactant']] = round(10 ** rng.uniform(0, 1.3), 4)
    sparse = kind != 'dH' and rng.random() < 0.4
    if sparse:
        # arbitrary non-negative compositions: species nobody consumes are absent with probability 0.5 (products then appear in an empty slot)
        consumed = {i for m in (members if comb != 'system' else [r for mm in members for r in mm['rx']]) for i, v in m['st'].items() if v < 0}
        for i in list(flows):
            if i not in consumed and rng.random() < 0.5: flows[i] = 0.0
    # boundary of the quantifier: nothing converts (X = 0 everywhere, or the reactants are absent from the feed) while heat may still be added
    noconv = None
    if kind in ('iso', 'adiabatic') and rng.random() < 0.15:
        noconv = rng.choice(['X=0', 'reactant-absent'])
        for m in (members if comb != 'system' else [r for mm in members for r in mm['rx']]):
            if noconv == 'X=0': m['X'] = 0.0
            else: flows[m['reactant']] = 0.0
    T = 298.15 if kind == 'literal' else round(rng.uniform(280, 450), 2)
    Q = 0.0
    if kind == 'adiabatic' and rng.random() < 0.6: Q = rng.choice([-1, 1]) * 10 ** rng.uniform(3, 6)
    case = {'kind': kind, 'comb': comb, 'members': members, 'tagged': tagged, 'phmap': phmap, 'basis': basis, 'flows': flows,
            'phase': phase, 'T': T, 'P': rng.choice([101325., 5e4, 5e5]), 'Q': Q, 'noconv': noconv}
    if phases: case['phases'] = phases
    if sparse: case['sparse'] = True
    if kind == 'dH' and rng.random() < 0.3: case['rebase'] = rng.choice(['copy', 'setter'])
    if kind == 'adiabatic':
        u = rng.random()
        if u < 0.25:
            # a heat input worth up to +-100 K of sensible heat (estimate: 40 / 100 kJ/kmol/K for gas / liquid)
            ntot = sum(flows.values()); frac_g = (sum(v for i, v in flows.items() if phmap[i] == 'g') / ntot) if tagged else (1.0 if phase == 'g' else 0.0)
            case['Q'] = round(ntot * (40. * frac_g + 100. * (1 - frac_g)) * rng.uniform(-100, 100), 3); case['Qlarge'] = True
        case['Qform'] = rng.choice(['positional', 'positional', 'keyword', 'explicit'])      # explicit: Q passed even when it is 0
    if kind in ('iso', 'adiabatic') and rng.random() < 0.2: case['foreign'] = True         # the stream lives on another property package than the reaction
    return case


def latent(chem, phase):
    ref = chem.phase_ref
    if ref == phase: return 0.0
    hv = chem.Hvap(298.15); hf = chem.Hfus
    table = {('l', 'g'): hv, ('l', 's'): -hf, ('g', 'l'): -hv, ('g', 's'): -(hv + hf), ('s', 'l'): hf, ('s', 'g'): hf + hv}
    return table[(ref, phase)]


def expected_dH(d, th):
    ch = {c.ID: c for c in th.chemicals}
    r = d['reactant']; st = d['st']
    tot = 0.0
    for i, v in st.items():
        nu = v / -st[r]
        h = ch[i].Hf + (latent(ch[i], d['ph'][i]) if d.get('ph') else 0.0)
        tot += nu * h
    tot *= d['X']
    if d['basis'] == 'wt': tot /= ch[r].MW
    return tot


def build_stream(case, th):
    if case.get('foreign'): th = R.thermo(perm=True)
    if case['tagged']:
        s = tmo.MultiStream(None, phases=('g', 'l'), T=case['T'], P=case['P'], thermo=th)
        for i, v in case['flows'].items(): s.imol[case['phmap'][i], i] = v
    else:
        s = tmo.Stream(None, phase=case['phase'], T=case['T'], P=case['P'], thermo=th)
        for i, v in case['flows'].items(): s.imol[i] = v
    return s


def mol_by_id(s):
    out = {}
    data = s.imol.data
    rows = data.rows if hasattr(data, 'rows') else [data]
    for r in rows:
        for j, v in r.dct.items(): out[s.chemicals.IDs[j]] = out.get(s.chemicals.IDs[j], 0.0) + v
    return out


def run_case(case, rec):
    from vt.workloads.c05 import build
    rec.begin_case(case)
    th = R.thermo()
    ch = {c.ID: c for c in th.chemicals}
    kind = case['kind']
    tag = f'{case["comb"]}/{case["basis"]}/{"tagged" if case["tagged"] else "phase-less"}'
    if case.get("noconv"): tag += "/no-conversion"
    try:
        rx = build(case, th)
    except Exception as e:
        rec.exception('construct', e, what=f'constructing reaction raised {type(e).__name__}: {e}'); return
    rec.hit('comb:' + case['comb'])
    if case['comb'] in ('parallel', 'series'):
        # the heat of reaction reported by each member of a set (an item shares the set's conversion array)
        for k_, d in enumerate(case['members']):
            try: got = rx[k_].dH
            except Exception as e:
                rec.exception('dH', e, what=f'dH of item {k_} of a {case["comb"]} set raised {type(e).__name__}: {e}'); break
            exp = expected_dH(d, th)
            scale = max(abs(exp), max(abs(ch[i].Hf) for i in d['st']) * 1e-3, 1e-300)
            okshape = np.ndim(got) == 0
            rec.hit('dH:set-item')
            rec.check(okshape and abs(got - exp) <= 1e-11 * scale + 1e-12 * abs(exp), 'dH', 'set-item/' + tag, f'item {k_} of a {case["comb"]} set reports dH={got!r} but X*sum(nu*(Hf+latent)) = {exp!r}',
                      residual=(abs(got - exp) / scale) if okshape else None)
    if kind == 'dH':
        d = case['members'][0]
        try: got = rx.dH
        except Exception as e:
            rec.exception('dH', e, what=f'dH raised {type(e).__name__}: {e}'); return
        exp = expected_dH(d, th)
        scale = max(abs(exp), max(abs(ch[i].Hf) for i in d['st']) * 1e-3, 1e-300)
        rec.check(abs(got - exp) <= 1e-11 * scale + 1e-12 * abs(exp), 'dH', tag, f'dH={got!r} but X*sum(nu*(Hf+latent)){"/MW" if d["basis"] == "wt" else ""} = {exp!r}', residual=abs(got - exp) / scale)
        if case['tagged']: rec.hit('dH:tagged')
        if d['basis'] == 'wt': rec.hit('dH:wt')
        if d['X'] == 0: rec.hit('dH:X=0')
        if d.get('ph') and 's' in d['ph'].values(): rec.hit('dH:solid-phase')
        if d.get('ph') and any(ch[i].phase_ref == 's' and d['ph'][i] != 's' for i in d['st']): rec.hit('dH:solid-reference')
        if case.get('rebase'):
            # the heat of reaction reported by a re-based reaction: same formula, per unit of the other basis
            other = 'wt' if d['basis'] == 'mol' else 'mol'
            try:
                if case['rebase'] == 'copy': r2 = rx.copy(basis=other)
                else: r2 = rx.copy(); r2.basis = other
                got2 = r2.dH
            except Exception as e:
                rec.exception('dH', e, what=f'dH of a reaction re-based to {other} ({case["rebase"]}) raised {type(e).__name__}: {e}'); return
            exp2 = expected_dH(dict(d, basis=other), th)
            scale2 = max(abs(exp2), max(abs(ch[i].Hf) for i in d['st']) * 1e-3 / (ch[d['reactant']].MW if other == 'wt' else 1.0), 1e-300)
            rec.hit('dH:rebased')
            rec.check(abs(got2 - exp2) <= 1e-10 * scale2, 'dH', f'rebased-{case["rebase"]}/{tag}', f'after re-basing to {other}: dH={got2!r} but X*sum(nu*(Hf+latent)){"/MW" if other == "wt" else ""} = {exp2!r}', residual=abs(got2 - exp2) / scale2)
            rec.check(abs(rx.dH - got) <= 1e-15 * abs(got), 'dH', f'rebased-{case["rebase"]}/original-changed/{tag}', f're-basing a copy changed the dH of the original: {got!r} -> {rx.dH!r}')
        if d['X'] > 0 and len(d['st']) >= 3: rec.mark_nontrivial(case_hash(case))
        return
    s = build_stream(case, th)
    n0 = mol_by_id(s)
    try:
        H0, Hf0, Hnet0 = s.H, s.Hf, s.Hnet
    except Exception as e:
        rec.exception('stream-H', e, what=f'reading H/Hf/Hnet raised {type(e).__name__}: {e}'); return
    if kind in ('iso', 'literal'):
        try:
            rx(s)
        except InfeasibleRegion:
            rec.refuse('infeasible'); return
        except Exception as e:
            rec.exception('isothermal', e, what=f'reaction call raised {type(e).__name__}: {e}'); return
        n1 = mol_by_id(s)
        H1, Hf1, Hnet1 = s.H, s.Hf, s.Hnet
        dHf_model = sum((n1.get(i, 0.0) - n0.get(i, 0.0)) * ch[i].Hf for i in set(n0) | set(n1))
        scale = max(abs(Hnet0), abs(Hnet1), abs(dHf_model), 1e-300)
        # Hnet = H + Hf on both sides, and the change of Hf is the stoichiometry-weighted formation enthalpy
        rec.check(abs((Hnet1 - Hnet0) - (H1 - H0) - dHf_model) <= 1e-10 * scale, 'isothermal', f'Hnet-H-Hf/{tag}',
                  f'change of (Hnet - H) = {(Hnet1 - Hnet0) - (H1 - H0)!r} but sum(dn_i*Hf_i) = {dHf_model!r}', residual=abs((Hnet1 - Hnet0) - (H1 - H0) - dHf_model) / scale)
        rec.check(abs(s.T - case['T']) == 0, 'isothermal', f'T-changed/{tag}', f'isothermal reaction changed T {case["T"]} -> {s.T}')
        if case['comb'] == 'single':
            d = case['members'][0]; r = d['reactant']
            fed = n0.get(r, 0.0) if not d.get('ph') else None
            if d.get('ph'):
                # reactant fed = amount in the tagged phase
                fed = case['flows'][r] if case['phmap'][r] == d['ph'][r] else 0.0
            fed_units = fed * (ch[r].MW if d['basis'] == 'wt' else 1.0)
            lat = 0.0
            if d.get('ph'):
                lat = d['X'] * sum((v / -d['st'][r]) * latent(ch[i], d['ph'][i]) for i, v in d['st'].items())
                if d['basis'] == 'wt': lat /= ch[r].MW
            exp = (rx.dH - lat) * fed_units
            rec.check(abs(dHf_model - exp) <= 1e-9 * max(abs(exp), abs(Hnet0), 1e-300), 'isothermal', f'dH-times-fed/{tag}',
                      f'formation-enthalpy change {dHf_model!r} != (dH - latent)*fed = {exp!r}', residual=abs(dHf_model - exp) / max(abs(exp), abs(Hnet0), 1e-300))
            if kind == 'literal':
                lit = rx.dH * fed_units
                rec.check(abs((Hnet1 - Hnet0) - lit) <= 1e-9 * max(abs(lit), abs(Hnet0)), 'isothermal-literal', tag,
                          f'at 298.15 K in reference phases: Hnet changed by {Hnet1 - Hnet0!r} but dH*fed = {lit!r}', residual=abs((Hnet1 - Hnet0) - lit) / max(abs(lit), abs(Hnet0), 1e-300))
        if case['comb'] != 'single':
            # the formation-enthalpy change of a set / system is the sum over its members of (reported heat of the member) x (reactant amount the member sees):
            # the feed for parallel members, the running composition for series members and from one part of a system to the next
            from vt.workloads.c05 import model as dense
            key = (lambda i: (case['phmap'][i], i)) if case['tagged'] else (lambda i: i)
            fl = {key(i): v for i, v in case['flows'].items() if v}
            if case['comb'] == 'system': groups = [(m['k'], m['rx'], [rx[a]] if m['k'] == 'single' else [rx[a][b] for b in range(len(m['rx']))]) for a, m in enumerate(case['members'])]
            else: groups = [(case['comb'], case['members'], [rx[b] for b in range(len(case['members']))])]
            exp = 0.0; okdH = True
            for k_, ds, objs in groups:
                for d, o in zip(ds, objs):
                    r = d['reactant']
                    fed = fl.get(key(r), 0.0) * (ch[r].MW if d['basis'] == 'wt' else 1.0)
                    lat = 0.0
                    if d.get('ph'):
                        lat = d['X'] * sum((v / -d['st'][r]) * latent(ch[i], d['ph'][i]) for i, v in d['st'].items())
                        if d['basis'] == 'wt': lat /= ch[r].MW
                    try: dh = o.dH
                    except Exception as e:
                        rec.exception('dH', e, what=f'dH of a member raised {type(e).__name__}: {e}'); okdH = False; break
                    if np.ndim(dh) != 0: okdH = False; break          # judged by the set-item clause
                    exp += (dh - lat) * fed
                    if k_ == 'series' or k_ == 'single': fl = R.model_apply(fl, d)
                if not okdH: break
                if k_ == 'parallel': fl = dense({'comb': 'parallel', 'members': ds}, fl)
            if okdH:
                rec.hit('isothermal:set-dH-times-fed')
                den = max(abs(exp), abs(Hnet0), 1e-300)
                rec.check(abs(dHf_model - exp) <= 1e-9 * den, 'isothermal', f'set-dH-times-fed/{tag}',
                          f'formation-enthalpy change {dHf_model!r} != sum over members of (dH - latent)*fed = {exp!r}', residual=abs(dHf_model - exp) / den)
        if case.get('sparse'): rec.hit('feed:sparse')
        if case.get('foreign'): rec.hit('stream:other-package')
        rec.mark_nontrivial(case_hash(case))
        return
    # adiabatic
    Q = case['Q']
    try:
        qf = case.get('Qform', 'positional')
        if qf == 'keyword' and Q: rx.adiabatic_reaction(s, Q=Q); rec.hit('adiabatic:Q-keyword')
        elif qf == 'explicit' and not Q: rx.adiabatic_reaction(s, 0.0); rec.hit('adiabatic:Q=0-explicit')
        else: rx.adiabatic_reaction(s, Q) if Q else rx.adiabatic_reaction(s)
    except InfeasibleRegion:
        rec.refuse('infeasible'); return
    except Exception as e:
        # the temperature solve left the range of the property models (the quantifier takes only heat inputs for which the outlet temperature stays inside it)
        if isinstance(e, (RuntimeError, ValueError, FloatingPointError, ZeroDivisionError, OverflowError)) and any(w in str(e) for w in ('extrapolate', 'Negative temperature', 'temperature', 'root could not be solved', 'divide', 'overflow', 'invalid value')):
            rec.refuse('outlet temperature outside the property models (the T solve raised)'); return
        rec.exception('adiabatic', e, what=f'adiabatic_reaction raised {type(e).__name__}: {str(e)[:200]}'); return
    T1 = s.T
    if not (200 < T1 < 2500):
        rec.refuse('outlet temperature outside the property models'); return
    try:
        Hnet1 = s.Hnet; C1 = s.C
    except Exception as e:
        rec.exception('adiabatic', e, what=f'reading Hnet/C after adiabatic reaction raised {type(e).__name__}: {e}'); return
    res = abs(Hnet1 - (Hnet0 + Q))
    rec.check(res <= 1e-5 * C1 + 1e-12 * abs(Hnet0), 'adiabatic', tag + ('/Q' if Q else ''), f'Hnet after {Hnet1!r} != Hnet before + Q = {Hnet0 + Q!r} (residual {res:.3g} kJ/hr, C={C1:.4g} kJ/hr/K, T {case["T"]} -> {T1:.3f})',
              residual=res / max(C1, 1e-300))
    if Q: rec.hit('adiabatic:Q')
    if Q and case.get('Qlarge'): rec.hit('adiabatic:Q-large')
    if case.get('sparse'): rec.hit('feed:sparse')
    if case.get('foreign'): rec.hit('stream:other-package')
    if case.get('noconv'): rec.hit('adiabatic:no-conversion' + ('+Q' if Q else ''))
    rec.mark_nontrivial(case_hash(case))


def replay(case, rec):
    run_case(case, rec)


def run(rec, rng, tier, shard, nshards):
    R.check_atoms()
    n = 3000 if tier == 'quick' else 25000
    for i in range(n):
        case = gen_case(rng)
        try:
            run_case(case, rec)
        except Exception as e:
            rec.exception('harness', e, what=f'harness error: {type(e).__name__}: {e}')
        if i % 301 == 0: rec.sample(case)
