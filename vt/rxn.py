"""Reaction helpers: balanced random stoichiometries (rational null space of the formula matrix), builders, dense model."""
from fractions import Fraction
import numpy as np
import thermosteam as tmo
from vt.common import thermo_of

IDS = ('H2', 'O2', 'N2', 'Water', 'CO', 'CO2', 'CH4', 'Methanol', 'Ethanol', 'AceticAcid', 'Ethylene', 'Propane',
       'Glucose', 'Glycerol', 'Acetone', 'EthylAcetate')
# element counts (C, H, O, N) written out independently of the library (checked against chemical.atoms at start-up)
ATOMS = {'H2': (0, 2, 0, 0), 'O2': (0, 0, 2, 0), 'N2': (0, 0, 0, 2), 'Water': (0, 2, 1, 0), 'CO': (1, 0, 1, 0), 'CO2': (1, 0, 2, 0),
         'CH4': (1, 4, 0, 0), 'Methanol': (1, 4, 1, 0), 'Ethanol': (2, 6, 1, 0), 'AceticAcid': (2, 4, 2, 0), 'Ethylene': (2, 4, 0, 0),
         'Propane': (3, 8, 0, 0), 'Glucose': (6, 12, 6, 0), 'Glycerol': (3, 8, 3, 0), 'Acetone': (3, 6, 1, 0), 'EthylAcetate': (4, 8, 2, 0)}
ELEMENTS = ('C', 'H', 'O', 'N')
PERM = ('Glucose', 'Water', 'Ethanol', 'CO2', 'O2', 'H2', 'CH4', 'CO', 'N2', 'Methanol', 'AceticAcid', 'Ethylene', 'Propane',
        'Glycerol', 'Acetone', 'EthylAcetate')   # same chemicals, other order (a different property package)

TEXTBOOK = [
    ({'CH4': -1, 'O2': -2, 'CO2': 1, 'Water': 2}, 'CH4'),
    ({'Glucose': -1, 'Ethanol': 2, 'CO2': 2}, 'Glucose'),
    ({'H2': -2, 'O2': -1, 'Water': 2}, 'H2'),
    ({'CO': -2, 'O2': -1, 'CO2': 2}, 'CO'),
    ({'Ethanol': -1, 'O2': -1, 'AceticAcid': 1, 'Water': 1}, 'Ethanol'),
    ({'Ethanol': -1, 'AceticAcid': -1, 'EthylAcetate': 1, 'Water': 1}, 'AceticAcid'),
    ({'Ethylene': -1, 'Water': -1, 'Ethanol': 1}, 'Ethylene'),
    ({'CO': -1, 'H2': -2, 'Methanol': 1}, 'CO'),
    ({'Propane': -1, 'O2': -5, 'CO2': 3, 'Water': 4}, 'Propane'),
    ({'Glucose': -1, 'O2': -6, 'CO2': 6, 'Water': 6}, 'Glucose'),
    ({'CO': -1, 'Water': -1, 'CO2': 1, 'H2': 1}, 'CO'),
    ({'Glycerol': -1, 'Water': -3, 'CO2': 3, 'H2': 7}, 'Glycerol'),
]


def thermo(perm=False):
    return thermo_of(PERM if perm else IDS)


def check_atoms():
    """the independent ATOMS table must agree with the library's chemical formulas (guards the oracle itself)."""
    th = thermo()
    for c in th.chemicals:
        a = c.atoms
        mine = {e: n for e, n in zip(ELEMENTS, ATOMS[c.ID]) if n}
        if {k: v for k, v in a.items()} != mine:
            raise RuntimeError(f'ATOMS table disagrees with library for {c.ID}: {a} vs {mine}')


def nullspace(rows):
    """rational null space of a small integer matrix (list of rows)."""
    m = [[Fraction(x) for x in r] for r in rows]
    nrow, ncol = len(m), len(m[0])
    piv = []; r = 0
    for c in range(ncol):
        p = next((i for i in range(r, nrow) if m[i][c] != 0), None)
        if p is None: continue
        m[r], m[p] = m[p], m[r]
        pv = m[r][c]
        m[r] = [x / pv for x in m[r]]
        for i in range(nrow):
            if i != r and m[i][c] != 0:
                f = m[i][c]
                m[i] = [a - f * b for a, b in zip(m[i], m[r])]
        piv.append(c); r += 1
        if r == nrow: break
    free = [c for c in range(ncol) if c not in piv]
    basis = []
    for f in free:
        v = [Fraction(0)] * ncol
        v[f] = Fraction(1)
        for i, c in enumerate(piv):
            v[c] = -m[i][f]
        basis.append(v)
    return basis


def gen_stoichiometry(rng, allowed=None, tries=50):
    """balanced stoichiometry over 2-6 species: dict ID -> float coefficient (fractional allowed)."""
    pool = [i for i in IDS if i != 'N2' and (allowed is None or i in allowed)]
    for _ in range(tries):
        if rng.random() < 0.3 and allowed is None:
            d, r = rng.choice(TEXTBOOK)
            k = rng.choice([1, 1, 0.5, 2, 1 / 3])
            return {i: v * k for i, v in d.items()}
        n = rng.randrange(3, 7)
        species = rng.sample(pool, min(n, len(pool)))
        A = [[ATOMS[s][e] for s in species] for e in range(3)]
        ns = nullspace(A)
        if not ns: continue
        v = [Fraction(0)] * len(species)
        for b in ns:
            k = Fraction(rng.choice([-2, -1, 1, 1, 2, 3]), rng.choice([1, 1, 2, 3]))
            if rng.random() < 0.3 and len(ns) > 1: k = Fraction(0)
            v = [x + k * y for x, y in zip(v, b)]
        d = {s: float(x) for s, x in zip(species, v) if x != 0}
        if len(d) >= 2 and any(x < 0 for x in d.values()) and any(x > 0 for x in d.values()):
            if max(abs(x) for x in d.values()) / min(abs(x) for x in d.values()) < 50:
                return d
    return dict(TEXTBOOK[0][0])


def gen_reaction(rng, allowed=None, reactant=None, phases_p=0.25, phase_choices='lg'):
    d = gen_stoichiometry(rng, allowed)
    neg = [i for i, v in d.items() if v < 0]
    if reactant is None or reactant not in d or d[reactant] >= 0:
        reactant = rng.choice(neg)
    X = rng.choice([0.0, 1.0, round(rng.random(), 6), round(rng.random(), 3), 0.5])
    desc = {'st': d, 'reactant': reactant, 'X': X, 'basis': rng.choice(['mol', 'mol', 'wt']), 'form': rng.choice(['str', 'dict']),
            'ph': None}
    if rng.random() < phases_p:
        desc['ph'] = {i: rng.choice(phase_choices) for i in d}
    return desc


def mw(th):
    return {c.ID: c.MW for c in th.chemicals}


def build_reaction(desc, th):
    """desc['st'] is the molar stoichiometry; for basis 'wt' the reaction is *constructed* from mass coefficients."""
    d = desc['st']; basis = desc['basis']
    MW = mw(th)
    coeff = {i: (v * MW[i] if basis == 'wt' else v) for i, v in d.items()}
    ph = desc.get('ph')
    if desc['form'] == 'str':
        def term(i, v):
            s = repr(abs(v)) + i
            return s + ',' + ph[i] if ph else s
        left = ' + '.join(term(i, v) for i, v in coeff.items() if v < 0)
        right = ' + '.join(term(i, v) for i, v in coeff.items() if v > 0)
        rx = left + ' -> ' + right
    else:
        rx = {i: ((ph[i], v) if ph else v) for i, v in coeff.items()}
    kw = {'phases': ('g', 'l')} if ph else {}
    return tmo.Reaction(rx, reactant=desc['reactant'], X=desc['X'], chemicals=th.chemicals, basis=basis, **kw)


def model_apply(flows, desc):
    """dense model on molar flows {ID: n} (phase-less) or {(phase, ID): n} (phase-tagged); returns new dict."""
    d = desc['st']; r = desc['reactant']; X = desc['X']; ph = desc.get('ph')
    nu = {i: v / -d[r] for i, v in d.items()}
    out = dict(flows)
    if ph:
        fr = flows.get((ph[r], r), 0.0)
        for i, v in nu.items():
            out[(ph[i], i)] = out.get((ph[i], i), 0.0) + X * fr * v
    else:
        fr = flows.get(r, 0.0)
        for i, v in nu.items():
            out[i] = out.get(i, 0.0) + X * fr * v
    return out


def model_extent(flows, desc):
    d = desc['st']; r = desc['reactant']; ph = desc.get('ph')
    return desc['X'] * (flows.get((ph[r], r), 0.0) if ph else flows.get(r, 0.0))


def atoms_of(flows):
    """element totals of {ID or (phase, ID): n}."""
    tot = [0.0] * 4
    for k, n in flows.items():
        i = k[1] if isinstance(k, tuple) else k
        for e in range(4): tot[e] += ATOMS[i][e] * n
    return tot


def mass_of(flows, MW):
    return sum(MW[k[1] if isinstance(k, tuple) else k] * n for k, n in flows.items())
