"""Shared machinery: recorder, shard runner, verdicts, evidence, known findings, replay.

Nothing here imports thermosteam; workloads do (inside the shard sub-process).
"""
from __future__ import annotations
import hashlib, json, math, os, random, subprocess, sys, time, traceback, fnmatch

VERIF = os.path.dirname(os.path.dirname(os.path.abspath(__file__)))
REPO = os.environ.get('VERIF_REPO', '/repo')
PY = os.environ.get('VERIF_PY', '/venv/bin/python')
OUT = os.path.join(VERIF, 'out')
EVIDENCE = os.path.join(VERIF, 'evidence')
KNOWN_FILE = os.environ.get('VERIF_KNOWN') or os.path.join(VERIF, 'known_findings.json')      # VERIF_KNOWN: a scratch copy, for trying out entries before they are committed

# exit codes
HELD, VIOLATED, INCONCLUSIVE = 0, 1, 2


def jsonable(x, depth=0):
    """Best-effort conversion of a case / witness to something json can write."""
    if depth > 12:
        return repr(x)
    if x is None or isinstance(x, (bool, int, str)):
        return x
    if isinstance(x, float):
        if math.isnan(x) or math.isinf(x):
            return repr(x)
        return x
    try:
        import numpy as np
        if isinstance(x, np.generic):
            return jsonable(x.item(), depth + 1)
        if isinstance(x, np.ndarray):
            return jsonable(x.tolist(), depth + 1)
    except Exception:
        pass
    if isinstance(x, dict):
        return {str(k): jsonable(v, depth + 1) for k, v in x.items()}
    if isinstance(x, (list, tuple, set, frozenset)):
        return [jsonable(v, depth + 1) for v in x]
    return repr(x)


def case_hash(obj) -> str:
    return hashlib.sha1(json.dumps(jsonable(obj), sort_keys=True).encode()).hexdigest()[:16]


def exc_key(exc: BaseException) -> str:
    """<ExceptionType>@<innermost thermosteam function> — names a mechanism, not an input."""
    tb = exc.__traceback__
    site = '?'
    while tb is not None:
        fn = tb.tb_frame.f_code.co_filename
        if 'thermosteam' in fn and os.sep + 'vt' + os.sep not in fn:
            code = tb.tb_frame.f_code
            site = getattr(code, 'co_qualname', code.co_name)
        tb = tb.tb_next
    return f'{type(exc).__name__}@{site}'


def exc_text(exc: BaseException, limit=6) -> str:
    return ''.join(traceback.format_exception(type(exc), exc, exc.__traceback__, limit=-limit))[-1800:]


class Recorder:
    """Collects what the monitors observed in one shard."""

    MAX_VIOL_PER_KEY = 3
    MAX_SAMPLES = 4

    def __init__(self, pid, tier, seed, shard):
        self.pid, self.tier, self.seed, self.shard = pid, tier, seed, shard
        self.evaluations = 0          # oracle evaluations
        self.cases = 0                # cases executed
        self.nontrivial = set()       # hashes of distinct non-trivial cases
        self.clauses = {}             # clause -> number of oracle evaluations
        self.refusals = {}            # documented refusals, counted not judged
        self.reach = {}               # reach counters
        self.worst = {}               # clause -> worst residual observed (held ones)
        self.violations = {}          # key -> list of witnesses
        self.viol_counts = {}         # key -> count
        self.samples = []
        self.notes = {}
        self.current_case = None
        self.harness_errors = []      # exceptions raised by harness code (no library frame): make the run inconclusive

    # -- observation API used by workloads -------------------------------
    def begin_case(self, case):
        self.current_case = case
        self.cases += 1

    def ok(self, clause, residual=None, n=1):
        self.evaluations += n
        self.clauses[clause] = self.clauses.get(clause, 0) + n
        if residual is not None:
            try:
                r = float(residual)
                if r == r and r > self.worst.get(clause, -1.0):
                    self.worst[clause] = r
            except Exception:
                pass

    def refuse(self, what):
        self.refusals[what] = self.refusals.get(what, 0) + 1

    def hit(self, name, n=1):
        self.reach[name] = self.reach.get(name, 0) + n

    def mark_nontrivial(self, obj):
        self.nontrivial.add(obj if isinstance(obj, str) and len(obj) == 16 else case_hash(obj))

    def sample(self, obj):
        if len(self.samples) < self.MAX_SAMPLES:
            self.samples.append(jsonable(obj))

    def violation(self, key, what, detail=None, case=None):
        """key names clause + mechanism (no seeds, no random values)."""
        self.evaluations += 1
        clause = key.split('/')[1] if '/' in key else key
        self.clauses[clause] = self.clauses.get(clause, 0) + 1
        self.viol_counts[key] = self.viol_counts.get(key, 0) + 1
        lst = self.violations.setdefault(key, [])
        if len(lst) < self.MAX_VIOL_PER_KEY:
            lst.append({'key': key, 'what': what, 'detail': jsonable(detail),
                        'case': jsonable(case if case is not None else self.current_case),
                        'seed': self.seed, 'shard': self.shard})

    def exception(self, clause, exc, case=None, what=None):
        ek = exc_key(exc)
        if ek.endswith('@?'):
            # no frame of the library on the traceback: the exception was raised by the harness itself (a private helper it relies on is gone, a model cannot
            # digest a value): that decides nothing about the property - the run is inconclusive, not violated
            self.harness_errors.append({'clause': clause, 'error': f'{type(exc).__name__}: {str(exc)[:200]}', 'traceback': exc_text(exc, 4)[-600:],
                                        'case': jsonable(case if case is not None else self.current_case)})
            return f'{self.pid}/{clause}/harness-error/{type(exc).__name__}'
        key = f'{self.pid}/{clause}/exception/{ek}'
        self.violation(key, what or f'{clause}: internal error {type(exc).__name__}: {str(exc)[:200]}',
                       detail={'traceback': exc_text(exc)}, case=case)
        return key

    def check(self, cond, clause, key_suffix, what, detail=None, residual=None, case=None):
        """Evaluate one oracle: cond True -> ok, False -> violation keyed pid/clause/key_suffix."""
        if cond:
            self.ok(clause, residual)
            return True
        self.violation(f'{self.pid}/{clause}/{key_suffix}' if key_suffix else f'{self.pid}/{clause}',
                       what, detail, case)
        return False

    def dump(self):
        return {
            'pid': self.pid, 'tier': self.tier, 'seed': self.seed, 'shard': self.shard,
            'evaluations': self.evaluations, 'cases': self.cases,
            'nontrivial': sorted(self.nontrivial), 'clauses': self.clauses,
            'refusals': self.refusals, 'reach': self.reach, 'worst': self.worst,
            'violations': self.violations, 'viol_counts': self.viol_counts,
            'samples': self.samples, 'notes': jsonable(self.notes), 'harness_errors': self.harness_errors[:5], 'harness_error_count': len(self.harness_errors),
        }


def close(a, b, rel=1e-12, abs_=0.0):
    return abs(a - b) <= abs_ + rel * max(abs(a), abs(b))


# ---------------------------------------------------------------------------
# known findings

def load_known():
    try:
        with open(KNOWN_FILE) as f:
            data = json.load(f)
    except FileNotFoundError:
        return []
    return data.get('findings', [])


def match_known(key, pid, known):
    for k in known:
        if k.get('property') != pid or k.get('status') != 'known':
            continue
        if fnmatch.fnmatchcase(key, k['key']):
            return k
    return None


# ---------------------------------------------------------------------------
# driver (parent process)

def shard_env(hashseed='0'):
    env = dict(os.environ)
    env.update(NUMBA_DISABLE_JIT='1', DISABLE_PREFERENCES='1', FILTER_WARNINGS='1',
               PYTHONHASHSEED=hashseed, PYTHONDONTWRITEBYTECODE='1', PYTHONWARNINGS='ignore',
               VERIF_REPO=REPO)
    env['PYTHONPATH'] = os.pathsep.join([REPO, VERIF, os.path.join(VERIF, '.deps')])
    return env


def run_shards(pid, tier, seed, nshards, timeout, extra=None):
    os.makedirs(os.path.join(OUT, 'shards'), exist_ok=True)
    procs = []
    for i in range(nshards):
        outf = os.path.join(OUT, 'shards', f'{pid}-{tier}-{seed}-{i}.json')
        if os.path.exists(outf):
            os.remove(outf)
        logf = outf[:-5] + '.log'
        cmd = [PY, '-m', 'vt.shard', pid, '--tier', tier, '--seed', str(seed),
               '--shard', str(i), '--nshards', str(nshards), '--out', outf]
        if extra:
            cmd += extra
        hs = '0'
        if tier == 'thorough' and nshards >= 8 and i >= nshards - 2:
            hs = str(1 + (i % 2) * 41)   # two shards run under other hash seeds (set iteration order axis)
        lf = open(logf, 'w')
        p = subprocess.Popen(cmd, cwd=VERIF, env=shard_env(hs), stdout=lf, stderr=subprocess.STDOUT)
        procs.append((i, p, outf, logf, lf))
    from vt.table import AMBIENT
    if pid in AMBIENT and not extra:
        outf = os.path.join(OUT, 'shards', f'{pid}-{tier}-{seed}-ambient.json')
        if os.path.exists(outf):
            os.remove(outf)
        logf = outf[:-5] + '.log'
        lf = open(logf, 'w')
        p = subprocess.Popen([PY, '-m', 'vt.ambient_shard', pid, '--tier', tier, '--seed', str(seed), '--out', outf],
                             cwd=VERIF, env=shard_env('0'), stdout=lf, stderr=subprocess.STDOUT)
        procs.append(('ambient', p, outf, logf, lf))
    results, problems = [], []
    deadline = time.time() + timeout
    for i, p, outf, logf, lf in procs:
        try:
            p.wait(timeout=max(1.0, deadline - time.time()))
        except subprocess.TimeoutExpired:
            p.kill()
            p.wait()
            problems.append(f'shard {i}: watchdog fired after {timeout}s (inconclusive)')
        lf.close()
        if os.path.exists(outf):
            with open(outf) as f:
                results.append(json.load(f))
        else:
            tail = ''
            try:
                with open(logf) as f:
                    tail = f.read()[-1500:]
            except Exception:
                pass
            problems.append(f'shard {i}: no result (exit {p.returncode}): {tail}')
    return results, problems


def merge(results):
    m = {'evaluations': 0, 'cases': 0, 'nontrivial': set(), 'clauses': {}, 'refusals': {}, 'reach': {},
         'worst': {}, 'violations': {}, 'viol_counts': {}, 'samples': [], 'notes': {}, 'harness_errors': [], 'harness_error_count': 0}
    for r in results:
        m['evaluations'] += r['evaluations']
        m['harness_errors'] += r.get('harness_errors', [])[:3]; m['harness_error_count'] += r.get('harness_error_count', 0)
        m['cases'] += r['cases']
        m['nontrivial'].update(r['nontrivial'])
        for name in ('clauses', 'refusals', 'reach', 'viol_counts'):
            for k, v in r[name].items():
                m[name][k] = m[name].get(k, 0) + v
        for k, v in r['worst'].items():
            if v > m['worst'].get(k, -1):
                m['worst'][k] = v
        for k, lst in r['violations'].items():
            cur = m['violations'].setdefault(k, [])
            for w in lst:
                if len(cur) < 3:
                    cur.append(w)
        for s in r['samples']:
            if len(m['samples']) < 6:
                m['samples'].append(s)
        for k, v in r.get('notes', {}).items():
            m['notes'].setdefault(k, v)
        if 'meta' in r:
            m['meta'] = r['meta']
    return m


def finish(pid, tier, seed, m, problems, wall, nshards):
    """Decide the verdict, write evidence and replay files, print the interface lines."""
    known = load_known()
    os.makedirs(os.path.join(OUT, 'replays'), exist_ok=True)
    os.makedirs(EVIDENCE, exist_ok=True)
    new_viol, known_hits = [], []
    for key in sorted(m['violations']):
        k = match_known(key, pid, known)
        if k is not None:
            known_hits.append((key, k))
        else:
            new_viol.append(key)
    lines = []
    seen_known = set()
    for key, k in known_hits:
        if k['key'] in seen_known:
            continue
        seen_known.add(k['key'])
        mk = [kk for kk, k2 in known_hits if k2 is k]      # the keys attributed to this entry (the first entry that matches a key owns it)
        seen_n = sum(m['viol_counts'][kk] for kk in mk)
        den = sum(m['clauses'].get(c, 0) for c in {kk.split('/')[1] for kk in mk})
        if k.get('rate_per'): den = m['reach'].get(k['rate_per'], 0)
        rate = f" rate={seen_n / den:.2g} (bound {k['max_rate']})" if ('max_rate' in k and den) else ''
        lines.append(f"KNOWN-FINDING: property={pid} {k['what']} [key={k['key']} seen={seen_n}{rate}]")
    # a recorded finding stands for a mechanism seen at a certain (low) rate: the same key at a far higher rate is a wider or different
    # defect hiding behind the classification (seen with a seeded change whose wrong answers looked like the recorded non-convergence)
    for kk in {id(k): k for _, k in known_hits}.values():
        if 'max_rate' not in kk:
            continue
        keys = [key for key, k in known_hits if k is kk]
        seen = sum(m['viol_counts'].get(key, 0) for key in keys)
        denom = sum(m['clauses'].get(c, 0) for c in {key.split('/')[1] for key in keys})
        if kk.get('rate_per'):          # rate per case of an input class (reach counter), e.g. 'class:ideal-package'
            denom = m['reach'].get(kk['rate_per'], 0)
        if seen >= kk.get('min_seen', 10) and denom and seen / denom > kk['max_rate']:
            rkey = kk['key'] + '#rate-exceeded'
            w0 = m['violations'][keys[0]][0]
            m['violations'][rkey] = [dict(w0, key=rkey, what=f"recorded finding [{kk['key']}] observed {seen} times in {denom} evaluations of its clause(s) "
                                                                   f"(rate {seen / denom:.3g}, recorded bound {kk['max_rate']}): a wider or different defect than the one recorded; first witness: {w0['what'][:200]}")]
            m['viol_counts'][rkey] = seen
            new_viol.append(rkey)
    replay_paths = []
    for n, key in enumerate(new_viol):
        w = m['violations'][key][0]
        path = os.path.join(OUT, 'replays', f'{pid}-{tier}-{seed}-{n}.json')
        with open(path, 'w') as f:
            json.dump({'property': pid, 'key': key, 'what': w['what'], 'detail': w['detail'],
                       'case': w['case'], 'seed': w['seed'], 'shard': w['shard'], 'tier': tier}, f, indent=1)
        replay_paths.append(path)
        lines.append(f'VIOLATION property={pid} replay={path}')
        lines.append(f'  key={key} count={m["viol_counts"].get(key)} :: {w["what"][:300]}')

    meta = m.get('meta') or {}
    min_nt = meta.get('min_nontrivial', 2)
    required = list(meta.get('required', []))
    from vt.table import AMBIENT
    if pid in AMBIENT:
        required.append('ambient:tests-passed')
    def floor_of(r):
        # 'name>=N' asks for at least N hits over the whole run (a plain name asks for at least one)
        name, _, n = r.partition('>=')
        return name, (int(n) if n else 1)
    missing = [r for r in required if m['reach'].get(floor_of(r)[0], 0) + m['clauses'].get(floor_of(r)[0], 0) < floor_of(r)[1]]
    inconclusive = []
    if problems:
        inconclusive += problems
    if len(m['nontrivial']) < max(2, min_nt):
        inconclusive.append(f'only {len(m["nontrivial"])} distinct non-trivial cases (< {min_nt})')
    if missing:
        inconclusive.append('required monitors/branches never reached: ' + ', '.join(missing))
    if m.get('harness_error_count'):
        h0 = m['harness_errors'][0]
        inconclusive.append(f"{m['harness_error_count']} exception(s) raised inside the harness itself (no library frame on the traceback), first in clause {h0['clause']}: {h0['error']} :: {h0['traceback'][-300:]}")

    if new_viol:
        verdict, code = 'violated', VIOLATED
    elif inconclusive:
        verdict, code = 'inconclusive', INCONCLUSIVE
    else:
        verdict, code = 'held on what was observed', HELD

    ev = {
        'property_id': pid, 'tier': tier, 'seed': seed, 'level': 'exploration',
        'coverage': {
            'evaluations': int(m['evaluations']),
            'distinct_nontrivial': len(m['nontrivial']),
            'rule': meta.get('rule', ''),
            'samples': m['samples'] or [{'note': 'no sample recorded'}],
            'cases_executed': m['cases'],
            'clauses': dict(sorted(m['clauses'].items())),
            'refusals_counted_not_judged': dict(sorted(m['refusals'].items())),
            'reach_counters': dict(sorted(m['reach'].items())),
            'worst_residual_per_clause': {k: v for k, v in sorted(m['worst'].items())},
            'required_reach': required,
            'shards': nshards,
            'exhaustive': bool(m['notes'].get('exhaustive', False)),
            'notes': m['notes'],
            'verdict': verdict,
            'inconclusive_reasons': inconclusive,
            'harness_errors': m.get('harness_errors', [])[:3],
            'known_findings_seen': {k['key']: k['what'] for _, k in known_hits},
            'violation_keys': {k: m['viol_counts'].get(k) for k in new_viol},
            'repo': REPO,
        },
        'assumptions': list(meta.get('assumptions', [])),
        'wall_s': round(wall, 2),
        'violations': len(new_viol),
    }
    # evidence/ describes runs against /repo itself; a run against a scratch tree (VERIF_REPO=...) records under out/
    evdir = EVIDENCE if os.path.realpath(REPO) == '/repo' else os.path.join(OUT, 'evidence-scratch')
    os.makedirs(evdir, exist_ok=True)
    with open(os.path.join(evdir, f'{pid}.json'), 'w') as f:
        json.dump(ev, f, indent=1, sort_keys=False)
    for ln in lines:
        print(ln)
    print(f'[{pid} {tier} seed={seed}] verdict: {verdict}; cases={m["cases"]} oracle-evaluations={m["evaluations"]} '
          f'distinct-nontrivial={len(m["nontrivial"])} refusals={sum(m["refusals"].values())} wall={wall:.1f}s')
    for r in inconclusive:
        print(f'  INCONCLUSIVE: {r[:600]}')
    return code
