"""One extra shard per property: the repository's own tests and doctests, run in this process with the ambient monitors
of that property attached (vt/ambient.py).  Output has the same shape as an ordinary shard and is merged with them."""
import argparse, json, os, sys, time, warnings

# items of the pinned suite that fail on the unchanged tree (data not available offline); anything else failing is noted in the evidence
BASELINE_FAILING = {
    'tests/test_chemical.py::test_chemical_creation', 'tests/test_network.py::test_disconnect',
    'thermosteam/equilibrium/bubble_point.py::thermosteam.equilibrium.bubble_point.BubblePointBeta',
    'thermosteam/equilibrium/bubble_point.py::thermosteam.equilibrium.bubble_point.BubblePointBeta.solve_Ty',
    'thermosteam/equilibrium/flash_package.py::thermosteam.equilibrium.flash_package.FlashPackage',
}


def run_pytest(pid, rec, only=None):
    import pytest
    from vt import ambient, core
    repo = core.REPO

    class Plugin:
        def __init__(self):
            self.scan = None; self.passed = 0; self.failed = []

        def pytest_collection_finish(self, session):
            # attach after collection: the collected set (doctests are found by introspection) is exactly the repository's
            rec.hit('ambient:items-collected', len(session.items))
            self.scan = ambient.install(pid, rec)

        @pytest.hookimpl(hookwrapper=True)
        def pytest_runtest_call(self, item):
            ambient.NODE[0] = item.nodeid
            rec.begin_case({'ambient': item.nodeid})
            yield
            if self.scan is not None:
                try:
                    self.scan()
                except Exception as e:
                    ambient.mon_error('scan', e)

        def pytest_runtest_logreport(self, report):
            if report.when == 'call':
                if report.passed: self.passed += 1
                elif report.failed: self.failed.append(report.nodeid)

        def pytest_sessionfinish(self, session):
            ambient.uninstall()

    pl = Plugin()
    cwd = os.getcwd()
    os.chdir(repo)
    args = ['-q', '-p', 'no:cacheprovider', '--timeout=900', '--continue-on-collection-errors', '--no-header', '-W', 'ignore']
    if only: args.append(only)
    try:
        with open(os.devnull, 'w') as devnull:
            old = sys.stdout
            sys.stdout = devnull
            try:
                pytest.main(args, plugins=[pl])
            finally:
                sys.stdout = old
    finally:
        os.chdir(cwd)
    rec.hit('ambient:tests-passed', pl.passed)
    unexpected = sorted(set(pl.failed) - BASELINE_FAILING)
    if unexpected:
        rec.notes['ambient_tests_failing_beyond_the_pinned_five'] = unexpected[:20]
    return pl


def main():
    ap = argparse.ArgumentParser()
    ap.add_argument('pid'); ap.add_argument('--tier', default='quick'); ap.add_argument('--seed', type=int, default=0)
    ap.add_argument('--out'); ap.add_argument('--only')
    a = ap.parse_args()
    repo = os.environ.get('VERIF_REPO', '/repo')
    if repo not in sys.path[:1]: sys.path.insert(0, repo)
    os.environ.setdefault('NUMBA_DISABLE_JIT', '1'); os.environ.setdefault('DISABLE_PREFERENCES', '1'); os.environ.setdefault('FILTER_WARNINGS', '1')
    warnings.filterwarnings('ignore')
    from vt import core
    rec = core.Recorder(a.pid, a.tier, a.seed, 'ambient')
    t0 = time.time()
    run_pytest(a.pid, rec, only=a.only)
    d = rec.dump()
    d['wall'] = time.time() - t0
    with open(a.out, 'w') as f:
        json.dump(d, f)


if __name__ == '__main__':
    main()
