"""Shard counts and watchdog timeouts (seconds; firing = inconclusive) per property and tier."""
def _t(qs=4, ts=16, qt=900, tt=7200):
    return {'shards': {'quick': qs, 'thorough': ts}, 'timeout': {'quick': qt, 'thorough': tt}}
TABLE = {f'C{i:02d}': _t() for i in range(1, 21)}
