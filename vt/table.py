"""Shard counts and watchdog timeouts (seconds; firing = inconclusive) per property and tier."""
def _t(qs=4, ts=16, qt=900, tt=7200):
    return {'shards': {'quick': qs, 'thorough': ts}, 'timeout': {'quick': qt, 'thorough': tt}}
TABLE = {f'C{i:02d}': _t() for i in range(1, 21)}

# properties with ambient monitors (vt/ambient.py): one extra shard runs the repository's own tests and doctests under them
AMBIENT = ('C01', 'C02', 'C03', 'C04', 'C05', 'C06', 'C08', 'C09', 'C11', 'C12', 'C13', 'C14', 'C15', 'C16', 'C17', 'C18', 'C19', 'C20')
