"""Runs one shard of one workload in its own process (the tree under test is imported here)."""
import argparse, importlib, json, os, random, sys, time, warnings

def main():
    ap = argparse.ArgumentParser()
    ap.add_argument('pid'); ap.add_argument('--tier', default='quick'); ap.add_argument('--seed', type=int, default=0)
    ap.add_argument('--shard', type=int, default=0); ap.add_argument('--nshards', type=int, default=1)
    ap.add_argument('--out'); ap.add_argument('--replay')
    a = ap.parse_args()
    repo = os.environ.get('VERIF_REPO', '/repo')
    if repo not in sys.path[:1]:
        sys.path.insert(0, repo)
    os.environ.setdefault('NUMBA_DISABLE_JIT', '1')
    os.environ.setdefault('DISABLE_PREFERENCES', '1')
    os.environ.setdefault('FILTER_WARNINGS', '1')
    warnings.filterwarnings('ignore')
    from vt import core
    import numpy as np
    np.seterr(all='ignore')
    wl = importlib.import_module('vt.workloads.' + a.pid.lower())
    import thermosteam
    assert os.path.abspath(thermosteam.__file__).startswith(os.path.abspath(repo)), (thermosteam.__file__, repo)
    rec = core.Recorder(a.pid, a.tier, a.seed, a.shard)
    t0 = time.time()
    if a.replay:
        with open(a.replay) as f:
            rp = json.load(f)
        if isinstance(rp['case'], dict) and rp['case'].get('ambient'):
            from vt import ambient_shard
            ambient_shard.run_pytest(a.pid, rec, only=rp['case']['ambient'])     # the witness is a test of the repository: run it alone under the same monitors
        else:
            wl.replay(rp['case'], rec)
    else:
        rng = random.Random(a.seed * 1000 + a.shard)
        np.random.seed((a.seed * 1000 + a.shard) % (2**32))
        wl.run(rec, rng, a.tier, a.shard, a.nshards)
    d = rec.dump()
    mn = getattr(wl, 'MIN_NONTRIVIAL', {'quick': 2, 'thorough': 2})
    req = wl.required(a.tier) if hasattr(wl, 'required') else getattr(wl, 'REQUIRED', [])
    d['meta'] = {'rule': getattr(wl, 'RULE', ''), 'min_nontrivial': mn.get(a.tier, 2) if isinstance(mn, dict) else mn,
                 'required': list(req), 'assumptions': list(getattr(wl, 'ASSUMPTIONS', []))}
    d['wall'] = time.time() - t0
    with open(a.out, 'w') as f:
        json.dump(d, f)

if __name__ == '__main__':
    main()
