"""Ambient monitors: the oracles of the property checks attached to the real classes while somebody else's workload runs.

The workload here is the repository's own test-suite and doctests (215 items): realistic call sequences written by the
maintainers, which assert printed values on a handful of inputs but never the relations below.  The monitors are attached
AFTER pytest has collected (so the collected set is unchanged), observe entry and exit state of each monitored call (or the
live objects at the end of each test), evaluate a deterministic oracle and never raise into the workload.

Only the monitors of one property are installed per process (vt.ambient_shard runs one pytest process per property).
Keys are `Cxx/ambient:<clause>/<mechanism>`; the case of a witness is {'ambient': <pytest node id>} and replays by running
that node alone under the same monitors.
"""
import functools, gc, sys, warnings
import numpy as np

REC = None
NODE = [None]
SKIP = object()
INSTALLED = []          # (owner, name, original) for uninstall


def case():
    return {'ambient': NODE[0]}


def mon_error(where, e):
    # an error inside a monitor is a harness problem, never a verdict on the code: counted, shown in the evidence
    REC.refuse(f'ambient monitor error in {where}: {type(e).__name__}: {str(e)[:80]}')


def wrap(owner, name, pre, post, label=None):
    """Replace owner.name by a transparent wrapper: tok = pre(*a, **k) before, post(tok, result, *a, **k) after a normal return."""
    orig = owner.__dict__[name] if isinstance(owner, type) else getattr(owner, name)
    raw = orig
    kind = None
    if isinstance(orig, (staticmethod, classmethod)):
        kind = type(orig); raw = orig.__func__
    label = label or f'{getattr(owner, "__name__", owner)}.{name}'

    @functools.wraps(raw)
    def w(*a, **k):
        tok = SKIP
        try:
            tok = pre(*a, **k)
        except Exception as e:
            mon_error(label + ':pre', e)
        try:
            out = raw(*a, **k)
        except BaseException:
            REC.refuse(f'ambient: {label} raised (not judged)')
            raise
        if tok is not SKIP:
            try:
                REC.hit('ambient:' + label)
                post(tok, out, *a, **k)
            except Exception as e:
                mon_error(label + ':post', e)
        return out
    new = kind(w) if kind else w
    setattr(owner, name, new)
    INSTALLED.append((owner, name, orig))


def wrap_property_setter(cls, name, pre, post):
    prop = cls.__dict__[name]
    fset = prop.fset
    label = f'{cls.__name__}.{name}='

    def setter(self, value):
        tok = SKIP
        try: tok = pre(self, value)
        except Exception as e: mon_error(label + ':pre', e)
        try:
            fset(self, value)
        except BaseException:
            REC.refuse(f'ambient: {label} raised (not judged)'); raise
        if tok is not SKIP:
            try:
                REC.hit('ambient:' + label); post(tok, None, self, value)
            except Exception as e: mon_error(label + ':post', e)
    setattr(cls, name, property(prop.fget, setter, prop.fdel, prop.__doc__))
    INSTALLED.append((cls, name, prop))


def uninstall():
    while INSTALLED:
        owner, name, orig = INSTALLED.pop()
        setattr(owner, name, orig)


def live(cls, fresh_only=False):
    """live objects of a class; with fresh_only, those created since the previous call (everything older sits in the
    collector's permanent generation after gc.freeze(), which get_objects() does not walk - the scan stays cheap)."""
    out = [o for o in gc.get_objects() if isinstance(o, cls)]
    if fresh_only:
        gc.freeze()
    return out


# ---------------------------------------------------------------------------------------------------------------------
def install(pid, rec):
    """returns a function to call at the end of every test item (or None)"""
    global REC
    REC = rec
    gc.collect(); gc.freeze()
    import thermosteam as tmo
    from vt import common
    from vt.common import ledger, phase_ledger, ledger_add, ledger_diff, sparse_invariant
    Stream, MultiStream = tmo.Stream, tmo.MultiStream
    streams = (Stream, MultiStream)

    def is_stream(x): return isinstance(x, streams)

    def F_of(l): return sum(abs(v) for v in l.values())

    scan = None

    # ------------------------------------------------------------------ C01 conservation in mix / split / separate / scale
    if pid == 'C01':
        def mix_pre(self, others, *a, **k):
            if not isinstance(others, (list, tuple)) or not all(is_stream(o) for o in others): return SKIP
            return [ledger(o) for o in others]

        def mix_post(tok, out, self, others, *a, **k):
            exp = ledger_add(*tok); got = ledger(self)
            bad, worst = ledger_diff(got, exp, rel=1e-12)
            REC.check(not bad, 'ambient:mix', 'totals', f'{NODE[0]}: mix_from of {len(tok)} inlets: receiver totals differ from the sum of the inlets for {bad[:3]}', residual=worst, case=case())
            e = sparse_invariant(self.imol.data)
            REC.check(e is None, 'ambient:invariant', 'mix', f'{NODE[0]}: sparse invariant after mix_from: {e}', case=case())
            if len(tok) >= 2 and sum(1 for l in tok if l) >= 2: REC.mark_nontrivial(f'{NODE[0]}:mix:{len(REC.nontrivial)}')
        for cls in streams:
            if 'mix_from' in cls.__dict__: wrap(cls, 'mix_from', mix_pre, mix_post)

        def split_pre(self, s1, s2, split, *a, **k):
            if not (is_stream(s1) and is_stream(s2)): return SKIP
            return ledger(self)

        def split_post(tok, out, self, s1, s2, split, *a, **k):
            got = ledger_add(ledger(s1), ledger(s2))
            if s1 is self or s2 is self: return
            bad, worst = ledger_diff(got, tok, rel=1e-12)
            REC.check(not bad, 'ambient:split', 'totals', f'{NODE[0]}: split_to: outlets do not add up to the feed for {bad[:3]}', residual=worst, case=case())
            bad2, _ = ledger_diff(ledger(self), tok, rel=0)
            REC.check(not bad2, 'ambient:split', 'feed-changed', f'{NODE[0]}: split_to changed the feed: {bad2[:3]}', case=case())
            if np.ndim(split) == 0 and tok:
                exp1 = {c: v * float(split) for c, v in tok.items()}
                bad3, w3 = ledger_diff(ledger(s1), exp1, rel=1e-12)
                REC.check(not bad3, 'ambient:split', 'first-outlet', f'{NODE[0]}: split_to: first outlet is not split*feed for {bad3[:3]}', residual=w3, case=case())
            if tok: REC.mark_nontrivial(f'{NODE[0]}:split:{len(REC.nontrivial)}')
        for cls in streams:
            if 'split_to' in cls.__dict__: wrap(cls, 'split_to', split_pre, split_post)

        def sep_pre(self, other, *a, **k):
            if not is_stream(other) or other is self: return SKIP
            return ledger(self), ledger(other)

        def sep_post(tok, out, self, other, *a, **k):
            a_, b_ = tok
            exp = {c: a_.get(c, 0.) - b_.get(c, 0.) for c in set(a_) | set(b_)}
            if any(v < 0 for v in exp.values()): REC.refuse('ambient: separate_out of more than is present (not judged)'); return
            got = ledger(self)
            EPS = 2.220446049250313e-16
            bad = []; worst = 0.
            for c in set(got) | set(exp):          # per chemical: 32 ulps of the magnitudes that entered the subtraction of that chemical (nan counts as a difference)
                w = abs(a_.get(c, 0.)) + abs(b_.get(c, 0.)); d = abs(got.get(c, 0.) - exp.get(c, 0.))
                if w and d == d: worst = max(worst, d / w)
                if not d <= 32 * EPS * w: bad.append((c, got.get(c, 0.), exp.get(c, 0.)))
            REC.check(not bad, 'ambient:separate', 'remainder', f'{NODE[0]}: separate_out: remainder differs from before - other for {bad[:3]}', residual=worst, case=case())
            bb, _ = ledger_diff(ledger(other), b_, rel=0)
            REC.check(not bb, 'ambient:separate', 'other-changed', f'{NODE[0]}: separate_out changed the stream taken out: {bb[:3]}', case=case())
            if a_ and b_: REC.mark_nontrivial(f'{NODE[0]}:sep:{len(REC.nontrivial)}')
        wrap(Stream, 'separate_out', sep_pre, sep_post)

        def scale_pre(self, k_, *a, **k):
            if np.ndim(k_) != 0: return SKIP
            return phase_ledger(self)

        def scale_post(tok, out, self, k_, *a, **k):
            exp = {str(c): v * k_ for c, v in tok.items()}
            got = {str(c): v for c, v in phase_ledger(self).items()}
            bad, worst = ledger_diff(got, exp, rel=1e-15)
            REC.check(not bad, 'ambient:scale', 'flows', f'{NODE[0]}: scaling by {k_!r}: flows are not k times the earlier flows for {bad[:3]}', residual=worst, case=case())
            if tok: REC.mark_nontrivial(f'{NODE[0]}:scale:{len(REC.nontrivial)}')
        wrap(Stream, 'scale', scale_pre, scale_post)
        wrap(Stream, '__imul__', scale_pre, scale_post)

    # ------------------------------------------------------------------ C02 energy balance of mixing
    if pid == 'C02':
        # independent reference (oracle audit 2, C02 item 1 / 5): enthalpy and heat-capacity flows from the chemicals' own models over the raw rows, for the ideal
        # mixture without excess energies (other packages keep the reading through the stream); non-empty decided from the raw rows, not isempty()
        from thermosteam.base.phase_handle import PhaseHandle
        SA_ = sys.modules['thermosteam.base.sparse'].SparseArray

        def rows_(s):
            data = s.imol.data
            if isinstance(data, SA_): return [(ph, {i: v for i, v in r.dct.items() if v}) for ph, r in zip(s.phases, data.rows)]
            return [(s.phase, {i: v for i, v in data.dct.items() if v})]

        def holds(s):
            return any(row for _, row in rows_(s))

        def ideal_(s):
            m = s.mixture
            return type(m).__name__ == 'IdealMixture' and not m.include_excess_energies

        def ref_(s, what):
            chems = s.chemicals.tuple; T, P = s.T, s.P
            tot = sc = 0.
            for ph, row in rows_(s):
                for i, n in row.items():
                    h = getattr(chems[i], what)
                    if what == 'H': v = h(ph, T, P) if isinstance(h, PhaseHandle) else h(T, P)
                    else: v = h(ph, T) if isinstance(h, PhaseHandle) else h(T)
                    tot += n * v; sc += abs(n * v)
            return tot, sc

        def H_of(s, where):
            """enthalpy flow used in the balance: the reference when the package is the ideal mixture (the reading is judged against it), else the reading"""
            if not ideal_(s): REC.hit('ambient:not-ideal-mixture/reading-used'); return s.H
            r, sc = ref_(s, 'H'); val = s.H
            REC.check(abs(val - r) <= 1e-13 * sc + 1e-300, 'ambient:reading', 'H/' + where, f'{NODE[0]}: H of a stream ({where}) reads {val!r}; the molar-weighted sum of the chemicals\' own models over its rows is {r!r}',
                      residual=abs(val - r) / sc if sc else None, case=case())
            return r

        def C_of(s):
            return ref_(s, 'Cn')[0] if ideal_(s) else s.C

        def mix_pre(self, others, energy_balance=True, vle=False, Q=0., conserve_phases=False):
            if not energy_balance or vle or not isinstance(others, (list, tuple)) or not all(is_stream(o) for o in others): return SKIP
            live_ = [o for o in others if holds(o)]
            if not live_: return SKIP
            if not isinstance(Q, (int, float)): return SKIP
            return [H_of(o, 'mix-inlet') for o in live_], [o.P for o in live_], float(Q)

        def mix_post(tok, out, self, others, energy_balance=True, vle=False, Q=0., conserve_phases=False):
            Hs, Ps, Q_ = tok
            Hin = sum(Hs) + Q_
            C = abs(C_of(self))
            if not (C == C) or not C:
                REC.check(False, 'ambient:mix-enthalpy', 'nothing-or-nan-in-the-receiver', f'{NODE[0]}: mix_from of non-empty inlets: the heat-capacity flow of the receiver is {C!r}', case=case()); return
            Hout = H_of(self, 'mix-receiver')
            res = abs(Hout - Hin)
            REC.check(res <= 1e-5 * C, 'ambient:mix-enthalpy', 'sum', f'{NODE[0]}: mix_from: H out {Hout!r} != sum of inlet H {sum(Hs)!r} + Q {Q_!r} ({res / C:.3g} K*C)', residual=res / C, case=case())
            REC.check(self.P == min(Ps), 'ambient:mix-pressure', 'min', f'{NODE[0]}: mix_from: P out {self.P!r} != lowest non-empty inlet pressure {min(Ps)!r}', case=case())
            if len(Hs) >= 2: REC.mark_nontrivial(f'{NODE[0]}:mixH:{len(REC.nontrivial)}')
        for cls in streams:
            if 'mix_from' in cls.__dict__: wrap(cls, 'mix_from', mix_pre, mix_post)

        def H_pre(self, H):
            if not holds(self): return SKIP
            return float(H)

        def H_post(tok, out, self, H):
            C = abs(C_of(self))
            if not C or C != C: return
            back = H_of(self, 'after-assignment')
            REC.check(abs(back - tok) <= 1e-5 * C, 'ambient:set-H', 'read-back', f'{NODE[0]}: H = {tok!r} then reading gives {back!r} ({abs(back - tok) / C:.3g} K*C)', residual=abs(back - tok) / C, case=case())
            REC.mark_nontrivial(f'{NODE[0]}:setH:{len(REC.nontrivial)}')
        for cls in streams:
            if 'H' in cls.__dict__ and cls.__dict__['H'].fset is not None: wrap_property_setter(cls, 'H', H_pre, H_post)

    # ------------------------------------------------------------------ C03 / C04 / C15 equilibrium objects on live streams
    if pid in ('C03', 'C04', 'C15'):
        from thermosteam.equilibrium import VLE, LLE, SLE

        def rows(eq):
            imol = eq._imol
            return np.array([r.to_array() for r in imol.data.rows]), tuple(imol._phases)

    if pid == 'C03':
        def judge(tag, before, eq):
            b, bph = before; a, aph = rows(eq)
            if b.shape[1] != a.shape[1]: REC.refuse('ambient: chemicals changed during the call (not judged)'); return
            if bph != aph: REC.hit('ambient:phase-set-changed')      # totals and signs do not depend on the labels
            tb, ta = b.sum(0), a.sum(0); F = tb.sum()
            REC.check(bool(np.isfinite(a).all()), 'ambient:' + tag, 'non-finite', f'{NODE[0]}: {tag}: non-finite phase flows after a normal return: {a.tolist()}', case=case())
            bad = ~(np.abs(ta - tb) <= 1e-12 * np.maximum(np.abs(ta), np.abs(tb)) + 1e-12 * F)      # (written so that NaN counts as bad)
            ids = eq.chemicals.IDs
            REC.check(not bad.any(), 'ambient:' + tag, 'balance', f'{NODE[0]}: {tag}: per-chemical totals changed: ' + ', '.join(f'{ids[i]}: {tb[i]!r} -> {ta[i]!r}' for i in np.where(bad)[0][:4]),
                      residual=float((np.abs(ta - tb) / max(F, 1e-300)).max()), case=case())
            neg = [(aph[r], ids[j], float(a[r, j])) for r, j in zip(*np.where(a < 0))]
            REC.check(not neg, 'ambient:' + tag, 'negative', f'{NODE[0]}: {tag}: negative phase flows after a normal return: {neg[:4]}', case=case())
            if sum(1 for r in a if r.sum() > 0) >= 2: REC.mark_nontrivial(f'{NODE[0]}:{tag}:{len(REC.nontrivial)}')

        def vle_pre(self, **k):
            if k.get('gas_conversion') is not None or k.get('liquid_conversion') is not None: return SKIP   # reactive flash: material is meant to change
            if (rows(self)[0] < 0).any(): return SKIP
            return rows(self)
        wrap(VLE, '__call__', vle_pre, lambda tok, out, self, **k: judge('vle', tok, self))

        def lle_pre(self, T, P=None, top_chemical=None, update=True, **k):
            if not update or (rows(self)[0] < 0).any(): return SKIP
            return rows(self)
        wrap(LLE, '__call__', lle_pre, lambda tok, out, self, *a, **k: judge('lle', tok, self))

        def sle_pre(self, *a, **k):
            if (rows(self)[0] < 0).any(): return SKIP
            return rows(self)
        wrap(SLE, '__call__', sle_pre, lambda tok, out, self, *a, **k: judge('sle', tok, self))

    if pid == 'C04':
        def vle_pre(self, **k):
            if k.get('gas_conversion') is not None or k.get('liquid_conversion') is not None: return SKIP
            return True

        def vle_post(tok, out, self, T=None, P=None, V=None, H=None, S=None, x=None, y=None, **k):
            tc = self._thermal_condition
            if T is not None: REC.check(tc.T == T, 'ambient:spec-T', 'not-honoured', f'{NODE[0]}: vle(T={T!r}, ...) left T = {tc.T!r}', case=case())
            if P is not None: REC.check(tc.P == P, 'ambient:spec-P', 'not-honoured', f'{NODE[0]}: vle(P={P!r}, ...) left P = {tc.P!r}', case=case())
            a, aph = rows(self)
            if V is not None and 0 < V < 1 and 'g' in aph:
                idx = getattr(self, '_index', None)
                if idx is not None and len(idx):
                    g = a[aph.index('g')][idx].sum(); tot = a[:, idx].sum()
                    nonvle = a.sum() - tot
                    if tot > 0 and nonvle == 0:
                        REC.check(abs(g / tot - V) <= 1e-6, 'ambient:spec-V', 'not-met', f'{NODE[0]}: vle(V={V!r}, ...) gives a vapour fraction of {g / tot!r}', residual=abs(g / tot - V), case=case())
            if sum(1 for r in a if r.sum() > 0) >= 2: REC.mark_nontrivial(f'{NODE[0]}:vle:{len(REC.nontrivial)}')
        wrap(VLE, '__call__', vle_pre, vle_post)

    if pid == 'C15':
        def lle_pre(self, T, P=None, top_chemical=None, update=True, **k):
            if not update or not top_chemical: return SKIP
            return True

        def lle_post(tok, out, self, T, P=None, top_chemical=None, update=True, **k):
            a, aph = rows(self)
            if 'L' not in aph or 'l' not in aph: return
            chems = self.chemicals
            if top_chemical not in chems.IDs: return
            j = chems.IDs.index(top_chemical); MW = chems.MW
            mL = a[aph.index('L')] * MW; ml = a[aph.index('l')] * MW
            if mL.sum() > 0 and ml.sum() > 0:
                wL, wl = mL[j] / mL.sum(), ml[j] / ml.sum()
                REC.check(wL >= wl - 1e-12, 'ambient:top-chemical', 'label', f'{NODE[0]}: lle(top_chemical={top_chemical}): mass fraction in L {wL!r} < in l {wl!r}', case=case())
                REC.mark_nontrivial(f'{NODE[0]}:lle:{len(REC.nontrivial)}')
        wrap(LLE, '__call__', lle_pre, lle_post)

        def sle_pre(self, solute, *a, **k):
            return rows(self), solute

        def sle_post(tok, out, self, solute, *a, **k):
            (b, bph), _ = tok; a_, aph = rows(self)
            if bph != aph: return
            j = self.chemicals.IDs.index(solute) if solute in self.chemicals.IDs else None
            if j is None: return
            same = np.array_equal(np.delete(a_, j, 1), np.delete(b, j, 1))
            REC.check(same, 'ambient:sle-solute-only', 'others-moved', f'{NODE[0]}: sle({solute}) moved chemicals other than the solute', case=case())
            REC.mark_nontrivial(f'{NODE[0]}:sle:{len(REC.nontrivial)}')
        wrap(SLE, '__call__', sle_pre, sle_post)

    # ------------------------------------------------------------------ C05 reactions conserve mass and atoms
    if pid in ('C05', 'C06', 'C17'):
        from thermosteam.reaction import _reaction as R

    if pid == 'C05':
        def balanced(rxn):
            """True when the stoichiometry is atomically balanced (judged from the chemicals' formulas), None when formulas are missing."""
            chems = rxn.chemicals
            try:
                A = chems.formula_array          # elements x chemicals
            except Exception:
                return None
            if hasattr(rxn, '_reactions'):             # ReactionSystem: every part
                parts = [balanced(i) for i in rxn._reactions]
                return None if any(i is None for i in parts) else all(parts)
            st = rxn._stoichiometry
            if isinstance(st, (list, tuple)): rows_ = [i.to_array() if hasattr(i, 'to_array') else np.asarray(i, float) for i in st]      # ReactionSet: every member row
            else:
                st = st.to_array() if hasattr(st, 'to_array') else np.asarray(st, float)
                rows_ = [st] if st.ndim == 1 else list(st)
            ok = True
            for st in rows_:
                if st.ndim != 1: return None             # phase-tagged rows: not judged here
                if rxn._basis == 'wt': st = st / chems.MW
                used = np.where(st != 0)[0]
                if any(not chems.tuple[i].formula for i in used): return None
                r = A @ st
                ok = ok and bool(np.abs(r).max() <= 1e-9 * max(np.abs(st).max(), 1e-300))
            return ok

        def rxn_pre(self, material=None, *a, **k):
            if not is_stream(material): return SKIP
            b = balanced(self)
            if not b: REC.refuse('ambient: stoichiometry not atomically balanced or formula missing (outside the property)'); return SKIP
            d = material.imol.data
            mol = d.to_array() if d.ndim == 1 else d.to_array().sum(0)
            return mol

        def rxn_post(tok, out, self, material=None, *a, **k):
            chems = material.chemicals
            d = material.imol.data
            mol = d.to_array() if d.ndim == 1 else d.to_array().sum(0)
            MW = chems.MW
            m0, m1 = float(tok @ MW), float(mol @ MW)
            REC.check(abs(m1 - m0) <= 1e-9 * max(abs(m0), abs(m1)), 'ambient:mass', 'changed', f'{NODE[0]}: {type(self).__name__} call on a stream changed total mass {m0!r} -> {m1!r}', residual=abs(m1 - m0) / max(abs(m0), 1e-300), case=case())
            A = chems.formula_array
            a0, a1 = A @ tok, A @ mol
            sc = max(np.abs(a0).max(), 1e-300)
            REC.check(float(np.abs(a1 - a0).max()) <= 1e-9 * sc, 'ambient:atoms', 'changed', f'{NODE[0]}: {type(self).__name__} call changed element flows by {float(np.abs(a1 - a0).max()):.3g}', residual=float(np.abs(a1 - a0).max() / sc), case=case())
            full = d.to_array()
            REC.check(bool((full >= 0).all()) or bool((tok < 0).any()), 'ambient:nonnegative', 'negative-flow', f'{NODE[0]}: negative flow after a reaction returned normally', case=case())
            if not np.array_equal(tok, mol): REC.mark_nontrivial(f'{NODE[0]}:rxn:{len(REC.nontrivial)}')
        wrap(R.Reaction, '__call__', rxn_pre, rxn_post)
        for cls in (R.ReactionSet, R.ParallelReaction, R.SeriesReaction, R.ReactionSystem):      # `__call__ = Reaction.__call__` was bound at class creation
            if '__call__' in cls.__dict__: wrap(cls, '__call__', rxn_pre, rxn_post)

    if pid == 'C06':
        def ad_pre(self, stream, *a, **k):
            if not is_stream(stream) or stream.isempty(): return SKIP
            Q = k.get('Q', a[1] if len(a) > 1 else 0.)
            if not isinstance(Q, (int, float)): return SKIP
            twin = stream.copy()
            try: self(twin); reacted = twin.imol.data.to_array().copy()
            except Exception as e: reacted = ('raised', type(e).__name__)
            return stream.Hnet, float(Q or 0.), reacted

        def ad_post(tok, out, self, stream, *a, **k):
            H0, Q, reacted = tok
            if isinstance(reacted, tuple):
                REC.check(False, 'ambient:adiabatic', 'twin-raised-but-adiabatic-returned', f'{NODE[0]}: the plain call on a copy raised {reacted[1]} but adiabatic_reaction on the stream returned normally', case=case())
            else:
                got = stream.imol.data.to_array()
                sc = max(float(np.abs(reacted).max()), 1e-300)
                REC.check(got.shape == reacted.shape and bool((np.abs(got - reacted) <= 1e-11 * sc).all()), 'ambient:adiabatic', 'composition', f'{NODE[0]}: adiabatic_reaction left flows {got.tolist()} but the plain call on a copy gives {reacted.tolist()}', case=case())
            C = abs(stream.C)
            if not C or C != C: return
            res = abs(stream.Hnet - (H0 + Q))
            REC.check(res <= 2e-6 * C + 1e-12 * abs(H0), 'ambient:adiabatic', 'Hnet', f'{NODE[0]}: adiabatic_reaction: Hnet after {stream.Hnet!r} != Hnet before {H0!r} + Q {Q!r} ({res / C:.3g} K*C)', residual=res / C, case=case())
            REC.mark_nontrivial(f'{NODE[0]}:adiabatic:{len(REC.nontrivial)}')
        for cls in (R.Reaction, R.ReactionSet, R.ParallelReaction, R.SeriesReaction, R.ReactionSystem):
            if 'adiabatic_reaction' in cls.__dict__: wrap(cls, 'adiabatic_reaction', ad_pre, ad_post)

    if pid == 'C17':
        def snap(rx):
            st = rx._stoichiometry
            st = st.to_array() if hasattr(st, 'to_array') else np.array(st, float)
            X = rx._X
            return st.copy(), (np.array(X, float).copy() if np.ndim(X) else float(X)), getattr(rx, '_X_index', None), rx._basis

        def same(a, b):
            return np.array_equal(a[0], b[0]) and np.array_equal(a[1], b[1]) and repr(a[2]) == repr(b[2]) and a[3] == b[3]

        def bin_pre(self, other=None, *a, **k):
            return snap(self), (snap(other) if isinstance(other, R.Reaction) else None)

        def mk_post(opname):
            def post(tok, out, self, other=None, *a, **k):
                s0, o0 = tok
                REC.check(same(snap(self), s0), 'ambient:operands', f'{opname}/left-changed', f'{NODE[0]}: {opname} changed its left operand', case=case())
                if o0 is not None: REC.check(same(snap(other), o0), 'ambient:operands', f'{opname}/right-changed', f'{NODE[0]}: {opname} changed its right operand', case=case())
                if isinstance(out, R.Reaction):
                    REC.check(out is not self and out is not other, 'ambient:operands', f'{opname}/not-new', f'{NODE[0]}: {opname} returned one of its operands', case=case())
                    REC.check(out._stoichiometry is not self._stoichiometry, 'ambient:operands', f'{opname}/shares-stoichiometry', f'{NODE[0]}: result of {opname} shares the stoichiometry container of its operand', case=case())
                REC.mark_nontrivial(f'{NODE[0]}:{opname}:{len(REC.nontrivial)}')
            return post
        for nm in ('__add__', '__sub__', '__mul__', '__rmul__', '__truediv__', '__neg__', 'copy', 'backwards', 'with_basis'):
            if nm in R.Reaction.__dict__: wrap(R.Reaction, nm, bin_pre, mk_post(nm))

    # ------------------------------------------------------------------ C08 bubble / dew results are normalised
    if pid == 'C08':
        from thermosteam.equilibrium.bubble_point import BubblePoint
        from thermosteam.equilibrium.dew_point import DewPoint

        def bd_pre(self, z, *, T=None, P=None, **k):
            if any(v is not None for v in k.values()): return SKIP     # reactive variants
            z = np.asarray(z, float)
            if z.ndim != 1 or not z.sum() > 0: return SKIP
            return z.copy()

        def mk(kind):
            def post(tok, out, self, z, *, T=None, P=None, **k):
                comp = out.y if kind == 'bubble' else out.x
                comp = np.asarray(comp, float)
                REC.check(abs(comp.sum() - 1.) <= 1e-9, f'ambient:{kind}-normalised', 'sum', f'{NODE[0]}: {kind} point returns fractions summing to {comp.sum()!r}', residual=abs(comp.sum() - 1.), case=case())
                zz = np.asarray(out.z, float)
                REC.check(abs(zz.sum() - 1.) <= 1e-12 and np.allclose(zz, tok / tok.sum(), rtol=1e-12), f'ambient:{kind}-normalised', 'z', f'{NODE[0]}: {kind} point reports z = {zz.tolist()} for input {tok.tolist()}', case=case())
                REC.check(np.array_equal(np.asarray(z, float), tok), f'ambient:{kind}-side-effect', 'z-modified', f'{NODE[0]}: {kind} point modified the caller\'s composition', case=case())
                if (tok > 0).sum() >= 2: REC.mark_nontrivial(f'{NODE[0]}:{kind}:{len(REC.nontrivial)}')
            return post
        wrap(BubblePoint, '__call__', bd_pre, mk('bubble'))
        wrap(DewPoint, '__call__', bd_pre, mk('dew'))

    # ------------------------------------------------------------------ C09 sparse invariant at the exit of every public operation
    if pid == 'C09':
        sp = sys.modules['thermosteam.base.sparse']
        depth = [0]

        def mk_wrap(cls, nm):
            raw = cls.__dict__[nm]
            label = f'{cls.__name__}.{nm}'

            @functools.wraps(raw)
            def w(self, *a, **k):
                depth[0] += 1
                try:
                    out = raw(self, *a, **k)
                finally:
                    depth[0] -= 1
                if depth[0] == 0:          # quiescent point: no sparse method on the stack
                    try:
                        for obj, role in ((self, 'target'), (out, 'result')):
                            if isinstance(obj, (sp.SparseVector, sp.SparseArray, sp.SparseLogicalVector)):
                                e = sparse_invariant(obj)
                                REC.hit('ambient:sparse-exit')
                                if e and 'outside size' in e and any(t in str(NODE[0]) for t in ('test_sparse_vector_indexing', 'test_sparse_array_indexing')):
                                    # tests/test_sparse.py writes sv[5] on a vector of size 4 on purpose ("size is not strict"); NumPy rejects such an index, so it is outside the property
                                    REC.refuse('ambient: the workload wrote beyond the size of a sparse vector (NumPy rejects the index; not judged)'); continue
                                REC.check(e is None, 'ambient:stored-entries', f'{label}/{role}', f'{NODE[0]}: after {label} the {role} violates the storage invariant: {e}', case=case())
                                if isinstance(obj, sp.SparseVector) and obj.dct: REC.mark_nontrivial(f'{label}:{role}')
                    except Exception as e:
                        mon_error(label, e)
                return out
            setattr(cls, nm, w)
            INSTALLED.append((cls, nm, raw))
        skip = {'__init__', '__new__', '__getattr__', '__repr__', '__str__', '__hash__', '__reduce__', '__reduce_ex__', '__getstate__', '__setstate__', '__iter__', '__len__', '__bool__',
                '__class_getitem__', '__init_subclass__', '__array__'}
        for cls in (sp.SparseVector, sp.SparseArray, sp.SparseLogicalVector):
            for nm, v in list(cls.__dict__.items()):
                if nm in skip or not callable(v) or isinstance(v, (staticmethod, classmethod, type)): continue
                if nm.startswith('_') and not (nm.startswith('__') and nm.endswith('__')): continue
                mk_wrap(cls, nm)

        def scan():
            # every live sparse container at the end of the test
            for o in live((sp.SparseVector, sp.SparseArray, sp.SparseLogicalVector), True):
                try:
                    e = sparse_invariant(o)
                except Exception:
                    continue
                if e and 'outside size' in e and any(t in str(NODE[0]) for t in ('test_sparse_vector_indexing', 'test_sparse_array_indexing')): continue
                REC.check(e is None, 'ambient:stored-entries', 'live-object-at-test-end', f'{NODE[0]}: a live {type(o).__name__} violates the storage invariant at the end of the test: {e}', case=case())

    # ------------------------------------------------------------------ C11 views agree on every live stream at the end of each test
    if pid == 'C11':
        from vt.workloads import c11

        class Quiet:
            """forwards to REC with ambient clause names"""
            def check(self, cond, clause, key_suffix, what, detail=None, residual=None, case=None):
                return REC.check(cond, 'ambient:' + clause, key_suffix.split('after-')[0] + 'at-test-end', f'{NODE[0]}: {what}', detail, residual, globals()['case']())

            def exception(self, clause, e, what=None, case=None):
                if isinstance(e, RuntimeError) and 'molar volume method' in str(e) and 'is not valid at' in str(e):
                    REC.refuse('ambient: a molar volume model is outside its domain at the state of a live stream (not judged)')
                else: REC.exception('ambient:' + clause, e, what=f'{NODE[0]}: {what or "reading the views of a live stream raised"}', case=globals()['case']())

        def scan():
            q = Quiet()
            for s in live(streams, True):
                try:
                    if s.isempty() or not (s.T == s.T and s.T > 0 and s.P > 0): continue
                    if (np.asarray(s.imol.data.to_array()) < 0).any(): continue
                    thermo = s._thermo
                except Exception:
                    continue
                with warnings.catch_warnings():
                    warnings.simplefilter('ignore')
                    if c11.check_views(s, q, 'test-end'): REC.mark_nontrivial(f'{NODE[0]}:{len(REC.nontrivial)}')
                REC.hit('ambient:stream-at-test-end')

    # ------------------------------------------------------------------ C12 representation changes keep content
    if pid == 'C12':
        def ph_pre(self, value):
            return ledger(self), self.T, self.P

        def ph_post(tok, out, self, value):
            l0, T0, P0 = tok
            bad, worst = ledger_diff(ledger(self), l0, rel=1e-15)
            REC.check(not bad, 'ambient:phases', 'totals', f'{NODE[0]}: assigning phase(s) = {value!r} changed per-chemical totals: {bad[:3]}', residual=worst, case=case())
            REC.check(self.T == T0 and self.P == P0, 'ambient:phases', 'T-P', f'{NODE[0]}: assigning phase(s) = {value!r} changed T/P from {T0},{P0} to {self.T},{self.P}', case=case())
            if l0: REC.mark_nontrivial(f'{NODE[0]}:phases:{len(REC.nontrivial)}')
        for cls in streams:
            for nm in ('phases', 'phase'):
                p = cls.__dict__.get(nm)
                if isinstance(p, property) and p.fset is not None: wrap_property_setter(cls, nm, ph_pre, ph_post)

        def red_pre(self, *a, **k): return ledger(self), self.T, self.P

        def red_post(tok, out, self, *a, **k):
            l0, T0, P0 = tok
            bad, worst = ledger_diff(ledger(self), l0, rel=1e-15)
            REC.check(not bad, 'ambient:reduce', 'totals', f'{NODE[0]}: changed per-chemical totals: {bad[:3]}', residual=worst, case=case())
            REC.check(self.T == T0 and self.P == P0, 'ambient:reduce', 'T-P', f'{NODE[0]}: changed T/P', case=case())
            if l0: REC.mark_nontrivial(f'{NODE[0]}:reduce:{len(REC.nontrivial)}')
        for cls in streams:
            for nm in ('reduce_phases', 'as_stream'):
                if nm in cls.__dict__: wrap(cls, nm, red_pre, red_post)

    # ------------------------------------------------------------------ C13 a copy equals its original
    if pid == 'C13':
        def cp_pre(self, ID=None, thermo=None):
            if thermo is not None and thermo is not self._thermo: return SKIP
            return True

        def cp_post(tok, out, self, ID=None, thermo=None):
            a = {str(k): v for k, v in phase_ledger(self).items()}; b = {str(k): v for k, v in phase_ledger(out).items()}
            REC.check(a == b, 'ambient:copy', 'flows', f'{NODE[0]}: copy() has other flows than the original: {a} vs {b}', case=case())
            REC.check(out.T == self.T and out.P == self.P and tuple(out.phases) == tuple(self.phases), 'ambient:copy', 'state', f'{NODE[0]}: copy() differs in T/P/phases', case=case())
            REC.check(out.imol.data is not self.imol.data and out._thermal_condition is not self._thermal_condition, 'ambient:copy', 'shares-data', f'{NODE[0]}: copy() shares flow or thermal data with the original', case=case())
            if a: REC.mark_nontrivial(f'{NODE[0]}:copy:{len(REC.nontrivial)}')
        for cls in streams:
            if 'copy' in cls.__dict__: wrap(cls, 'copy', cp_pre, cp_post)

    # ------------------------------------------------------------------ C14 properties of live streams equal those of a fresh twin
    if pid == 'C14':
        from vt.workloads import c14
        PROPS = ('H', 'S', 'C', 'F_vol', 'rho', 'mu', 'kappa', 'Cn', 'Hvap')

        def scan():
            for s in live(streams, True):
                try:
                    if s.isempty() or not (s.T == s.T and 200 < s.T < 2000 and s.P > 0): continue
                    if (np.asarray(s.imol.data.to_array()) < 0).any(): continue
                    if isinstance(s, MultiStream) and len(set(s.phases)) != len(s.phases): continue
                    tw = c14.twin_of(s)
                except Exception:
                    continue
                n = 0
                for p in PROPS:
                    with warnings.catch_warnings():
                        warnings.simplefilter('ignore')
                        # the live stream is read FIRST: the twin shares its package, reading the twin first would prime any package-level state just before the judged read
                        try: a = c14.value_of(s, p); e = None
                        except Exception as e_: a = None; e = e_
                        try: b = c14.value_of(tw, p)
                        except Exception:
                            REC.hit('ambient:fresh-twin:no-value-on-twin'); continue
                        if e is not None:
                            REC.check(False, 'ambient:fresh-twin', p + '/raises-on-live-stream-only', f'{NODE[0]}: live {type(s).__name__} {s.ID}: {p} raised {type(e).__name__}: {str(e)[:80]} but a fresh stream in the same state gives {b!r}', case=case()); continue
                    if isinstance(b, float) and b != b: continue
                    n += 1
                    REC.check(c14.equal(a, b), 'ambient:fresh-twin', p, f'{NODE[0]}: live {type(s).__name__} {s.ID}: {p} = {a!r} but a fresh stream in the same state gives {b!r}', residual=c14.residual(a, b), case=case())
                if n: REC.mark_nontrivial(f'{NODE[0]}:{len(REC.nontrivial)}'); REC.hit('ambient:stream-at-test-end')

    # ------------------------------------------------------------------ C16 activity-coefficient calls have no side effects
    if pid == 'C16':
        ac = sys.modules['thermosteam.equilibrium.activity_coefficients']

        def g_pre(self, x, T, *a, **k):
            if not isinstance(x, np.ndarray): return SKIP
            return x.copy()

        def g_post(tok, out, self, x, T, *a, **k):
            REC.check(np.array_equal(x, tok, equal_nan=True), 'ambient:side-effect', type(self).__name__, f'{NODE[0]}: {type(self).__name__}(x, T) modified the caller\'s composition array: {tok.tolist()} -> {x.tolist()}', case=case())
            if isinstance(self, ac.IdealActivityCoefficients):
                REC.check(np.all(np.asarray(out) == 1.), 'ambient:ideal', 'not-one', f'{NODE[0]}: ideal activity coefficients returned {out!r}', case=case())
            elif hasattr(self, '_chemical_index') or hasattr(self, 'chemicals'):
                pass
            if tok.size >= 2: REC.mark_nontrivial(f'{NODE[0]}:gamma:{len(REC.nontrivial)}')
        for nm in ('IdealActivityCoefficients', 'GroupActivityCoefficients'):
            cls = getattr(ac, nm, None)
            if cls is not None and '__call__' in cls.__dict__: wrap(cls, '__call__', g_pre, g_post)

        # the solvers call gamma.f(x, T, *gamma.args), not the object: with the JIT disabled the class attribute `f` resolves to these module functions
        def f_pre(x, T, *a, **k):
            if not isinstance(x, np.ndarray): return SKIP
            return (x.copy(), [np.array(v, copy=True) if isinstance(v, np.ndarray) else None for v in a])

        def mk_f_post(nm):
            def f_post(tok, out, x, T, *a, **k):
                tok, a0 = tok
                # a = (interactions, group_psis, group_mask, qs, rs, Qs, chemgroups, chem_Qfractions, index); group_psis (a[1]) is the documented scratch array
                same = len(a) == len(a0) and all(q is None or np.array_equal(p_, q, equal_nan=True) for i, (p_, q) in enumerate(zip(a, a0)) if i != 1)
                REC.check(same, 'ambient:side-effect', nm + '/model-arrays', f'{NODE[0]}: {nm}(x, T, *args) modified the parameter arrays of the model object', case=case())
                REC.check(np.array_equal(x, tok, equal_nan=True), 'ambient:side-effect', nm, f'{NODE[0]}: {nm}(x, T, ...) modified the caller\'s composition array: {tok.tolist()} -> {x.tolist()}', case=case())
                if tok.size >= 2: REC.mark_nontrivial(f'{NODE[0]}:{nm}:{len(REC.nontrivial)}')
            return f_post
        for nm in ('gamma_UNIFAC', 'gamma_modified_UNIFAC'):
            fn = getattr(ac, nm, None)
            if fn is None or not callable(fn): continue
            wrap(ac, nm, f_pre, mk_f_post(nm), label='activity_coefficients.' + nm)
            for cls in vars(ac).values():          # classes that bound the function as their `f` at class creation
                if isinstance(cls, type) and cls.__dict__.get('f') is fn:
                    INSTALLED.append((cls, 'f', cls.__dict__['f'])); setattr(cls, 'f', staticmethod(getattr(ac, nm)) if isinstance(cls.__dict__['f'], staticmethod) else getattr(ac, nm))

    # ------------------------------------------------------------------ C18 port graph of all live units at the end of each test
    if pid == 'C18':
        from vt.workloads import c18
        from thermosteam.network import AbstractUnit

        class U_:
            pass

        def scan():
            units = [u for u in live(AbstractUnit, True) if hasattr(u, '_ins') and hasattr(u, '_outs')]
            if not units: return
            U = U_(); U.units = units; U.streams = []
            for u in units:
                if not hasattr(u, 'ID'): return
            try:
                errs = c18.check(U)
            except Exception as e:
                mon_error('c18.check', e); return
            REC.hit('ambient:units-at-test-end', len(units))
            REC.check(not errs, 'ambient:port-graph', 'at-test-end', f'{NODE[0]}: live units violate the port/stream consistency: {errs[:4]}', case=case())
            if len(units) >= 2: REC.mark_nontrivial(f'{NODE[0]}')

    # ------------------------------------------------------------------ C19 every network built by the workload
    if pid == 'C19':
        from thermosteam.network import Network
        from vt.workloads import c19

        def nu_pre(cls_or_units, *a, **k):
            return True

        def nu_post(tok, out, cls_, units, *a, **k):
            ends = k.get('ends') if 'ends' in k else (a[0] if len(a) >= 1 else None)
            units = list(units)
            path = c19.flatten(out)
            ids = [u.ID for u in path]
            if ends:
                # a section of the system was asked for: units behind an end stream may be missing, but nothing foreign may appear
                REC.check(set(path) <= set(units), 'ambient:path', 'path-subset-with-ends', f'{NODE[0]}: Network.from_units(ends=...): path units {ids} are not all among the given units', case=case())
            else:
                REC.check(set(path) == set(units), 'ambient:path', 'path-set', f'{NODE[0]}: Network.from_units: path units {ids} != given units {[u.ID for u in units]}', case=case())
            endids = {id(s) for s in ends} if ends else set()
            inpath = set(path)
            edges = [e for e in c19.edges_from_units([u for u in units if u in inpath]) if e[2] not in endids]
            recycles = out.get_all_recycles()
            dup = len(path) != len(set(path))
            if not recycles:
                REC.check(not dup, 'ambient:path', 'each-unit-once', f'{NODE[0]}: no recycle reported but a unit appears twice in {ids}', case=case())
                pos = {}
                for k_, u in enumerate(path): pos.setdefault(u, k_)
                bad = [(a_.ID, b_.ID) for a_, b_, sid in edges if pos[b_] <= pos[a_]]
                REC.check(not bad, 'ambient:path', 'order', f'{NODE[0]}: no recycle reported but units appear before units that feed them: {bad[:4]}', case=case())
            else:
                rids = {id(r) for r in recycles}
                REC.check(c19._acyclic(list(inpath), [(a_, b_) for a_, b_, sid in edges if sid not in rids]), 'ambient:path', 'cycle-without-recycle',
                          f'{NODE[0]}: a cycle of the flowsheet carries none of the reported recycles; path {ids}', case=case())
                stray = []
                for ln, rs in c19.loop_networks(out):
                    inl = set(c19.flatten(ln))
                    stray += [r for r in rs if not (getattr(r, 'source', None) in inl and getattr(r, 'sink', None) in inl)]
                REC.check(not stray, 'ambient:path', 'recycle-inside-own-loop' + ('/unit-listed-twice' if dup else ''), f'{NODE[0]}: reported recycle(s) do not connect two units of their own loop; path {ids}', case=case())
                REC.check(not dup, 'ambient:path', 'each-unit-once/with-recycle', f'{NODE[0]}: a unit appears twice in {ids}', case=case())
                if not dup:
                    found = []
                    c19.order_inside_networks(out, edges, found)
                    REC.check(not found, 'ambient:path', 'order-inside-networks', f'{NODE[0]}: {"; ".join(t for _, t in found[:2])}; path {ids}', case=case())
            if len(units) >= 3: REC.mark_nontrivial(f'{NODE[0]}:{len(REC.nontrivial)}')
        wrap(Network, 'from_units', nu_pre, nu_post)

    # ------------------------------------------------------------------ C20 separation helpers close the balance
    if pid == 'C20':
        sep = tmo.separations

        def arr(s):
            d = s.imol.data
            a = d.to_array()
            return a if a.ndim == 1 else a.sum(0)

        def mk(name, ins_of, outs_of):
            def pre(*a, **k):
                ins = ins_of(*a, **k)
                if not all(is_stream(i) for i in ins): return SKIP
                th = {id(i._thermo) for i in list(ins) + list(outs_of(*a, **k))}
                if len(th) != 1: return SKIP
                return [arr(i).copy() for i in ins]

            def post(tok, out, *a, **k):
                outs = outs_of(*a, **k)
                ins = ins_of(*a, **k)
                tot_in = sum(tok)
                # an outlet that is also an inlet was overwritten: what matters is what went in
                tot_out = sum(arr(o) for o in outs)
                sc = max(np.abs(tot_in).max(), 1e-300)
                res = float(np.abs(tot_out - tot_in).max() / sc)
                REC.check(res <= 1e-9, 'ambient:balance', name, f'{NODE[0]}: separations.{name}: outlets minus inlets = {(tot_out - tot_in).tolist()}', residual=res, case=case())
                neg = any((o.imol.data.to_array() < -1e-12 * sc).any() for o in outs)
                if not neg: REC.ok('ambient:nonnegative')
                else: REC.check(False, 'ambient:nonnegative', name, f'{NODE[0]}: separations.{name} left negative flows without reporting infeasibility', case=case())
                if tot_in.any(): REC.mark_nontrivial(f'{NODE[0]}:{name}:{len(REC.nontrivial)}')
            wrap(sep, name, pre, post, label='separations.' + name)
        mk('mix_and_split', lambda ins, top, bottom, split: list(ins), lambda ins, top, bottom, split: [top, bottom])
        mk('partition', lambda feed, top, bottom, *a, **k: [feed], lambda feed, top, bottom, *a, **k: [top, bottom])
        mk('lle', lambda feed, top, bottom, *a, **k: [feed], lambda feed, top, bottom, *a, **k: [top, bottom])
        mk('vle', lambda feed, vap, liq, *a, **k: [feed], lambda feed, vap, liq, *a, **k: [vap, liq])
        mk('phase_split', lambda feed, outlets: [feed], lambda feed, outlets: list(outlets))
        mk('adjust_moisture_content', lambda retentate, permeate, *a, **k: [retentate, permeate], lambda retentate, permeate, *a, **k: [retentate, permeate])

    return scan


SUPPORTED = ('C01', 'C02', 'C03', 'C04', 'C05', 'C06', 'C08', 'C09', 'C11', 'C12', 'C13', 'C14', 'C15', 'C16', 'C17', 'C18', 'C19', 'C20')
